#!/usr/bin/env python3
"""Regenerates MANIFEST.json (kept in a script so the long texts stay reviewable)."""
import json, subprocess

NA_COMMON = "closed, single-threaded, clock-free, I/O-free computation on exclusively owned values: no schedule, fault, crash point or peer for a simulator to vary (DESIGN.md §5)"
NA = {
 "C01": "dense direct solvers are a pure function of (A, b); quantified over inputs only — " + NA_COMMON,
 "C02": "determinant/inverse are pure functions of A on a clone — " + NA_COMMON,
 "C03": "dense matrix algebra/editing: deterministic methods on one owned buffer; its 'histories' are call sequences fixed by the sequence itself (an input) — " + NA_COMMON,
 "C04": "banded == dense is a pure function of (n, m1, m2, entries, b); pivot choice is a data-dependent branch, not a schedule — " + NA_COMMON,
 "C05": "tridiagonal == dense, solve exact or refuses: pure; the refusal is a deterministic panic decided by the entries — " + NA_COMMON,
 "C06": "sparse views agree / CSC well-formed: deterministic rebuilds of owned vectors; triplet order and insert/scale/transpose sequences are inputs — " + NA_COMMON,
 "C07": "sparse products == dense, transpose adjoint: pure bilinear function of inputs — " + NA_COMMON,
 "C08": "iterative solvers, success => residual <= tol: deterministic recurrences, the budget is an argument not a timer, nothing external perturbs r or x — " + NA_COMMON,
 "C09": "iterative solvers converge on well-posed systems: numerical analysis of a deterministic map — " + NA_COMMON,
 "C10": "polynomial roots: pure function of the coefficients (closed forms, Laguerre with fixed caps) — " + NA_COMMON,
 "C11": "polynomial ring/calculus laws: pure algebraic identities — " + NA_COMMON,
 "C12": "polynomial division: pure; 'never spins' is a fixed cap on a deterministic loop decided by the input alone — " + NA_COMMON,
 "C13": "complex field arithmetic: pure scalar functions — " + NA_COMMON,
 "C14": "complex elementary functions/branches: pure scalar functions — " + NA_COMMON,
 "C15": "vector arithmetic, norms, edits: deterministic methods on one owned Vec; edit histories are inputs; random()/output() are in no clause of C15 — " + NA_COMMON,
 "C20": "shape-mismatch panics are deterministic functions of the shapes; &-operands cannot change behind a shared reference in safe Cell-free code under any schedule; clone 'interleavings' are sequential call orders on unrelated buffers. The two slivers that touch a seam (dot_f64 operands under every schedule, Mesh1D::output leaving the mesh intact when it dies on an I/O fault) are asserted inside the C16 and C19 checks — " + NA_COMMON,
}

CHECKS = {
 "C16": dict(
   engine="simcheck (shuttle runtime + own seeded scheduler)",
   technique="deterministic simulation: real dot_f64 under a seeded/recorded thread scheduler and a simulated CPU count; seeded search over schedules x configurations; Miri many-seeds cross-check (thorough)",
   text="Seeded exploration of (length, CPU count, data, schedule): the shipped dot_f64 runs as shuttle tasks whose every scheduling decision comes from VERIF_SEED and is recorded; every (len 0..=200) x (CPUs 1..=16) pair is visited in every tier, plus lengths to 5000 and CPU counts to 200; oracles are exact-integer bit identity (-0.0 is not +0.0), a reassociation error bound, basis probes (each index covered exactly once), bit-identity across schedules and repeated calls, no panic/deadlock/hang, operands intact, no memory of earlier calls (another product before under a larger CPU count, an in-place change after, the self-product v.v), a concurrent second caller, every association of the rounded products for lengths 2..4; injected faults: stalled workers, refused thread creation (through std::thread::Builder), a CPU count that alternates between consultations. A band of million-element vectors is included. Thorough tier adds the unhooked crate on real threads under restricted CPU affinity and under Miri many-seeds. Sampling of schedules, not proof. Since rounds 7-11 of independent seeded changes: data with NaN/Inf/zero entries (class of the result must equal the sequential one), exponents over +-480 and all-subnormal products, lengths k*2^j-1, k*2^j, k*2^j+1 up to 4*2^20, a failing call (operands of different length) earlier in the execution; second configuration: one exact-data pass over the length grid under 3 and 5 real CPUs (taskset) for code that left the seam block. A run that blocks only because a second caller is simulated as a coroutine (a real lock outside the seams) is classified as a harness limit and the pass repeated without that feature; failures that no fresh process reproduces trigger a repeat of the pass with one worker thread.",
   design="§4.1",
   note="Trusted: shuttle's model of std::thread::scope/spawn/join; the CPU-count override standing in for num_cpus::get (cross-checked by Miri with real std threads and -Zmiri-num-cpus in the thorough tier); the Dot2 reference and the gamma(n) bound for general floats; a wall-clock watchdog (120 s per run, a time budget per pass) as the only real clock (it never influences a choice; when it fires the report says so)."),
 "C17": dict(
   engine="simcheck (scripted-callback simulator with fault script)",
   technique="deterministic simulation of the user function / user Jacobian as a scripted, recording, fault-injecting peer of the Newton iteration protocol; seeded search over scripts, fault keyings (evaluation index, region) and parameters; reference-model Newton step; restart-composition and replay oracles; shrinking",
   text="All six real solve/solve_jacobian methods run against a simulated user function that answers from a script (polynomials in product form, exp/sin equations, strictly diagonally dominant systems of dimension 1..6; root-free, non-differentiable and constant scripts), injects NaN/+-Inf/1e300 at a chosen evaluation index, user-Jacobian call or region, counts and hashes every call and aborts runaway solvers. Oracles: returns (no panic; runaway evaluation counts stopped by the callback, silent loops by a wall-clock watchdog), evaluations <= 2*E*max_iter+2 (the property names no constant) and at most one evaluation with max_iter=0, parameters() untouched; 2..12 further calls on the SAME object bit-identical in result and call history; the same object reconfigured through its setters (iterations, guess, delta, tolerance) answers like a fresh one; another object solving another problem on the same thread first changes nothing; failure payload is the last iterate (restart composition, one-step reference model), no Ok on scripts whose stopping criterion cannot be met, in-basin success within O(tol) of the root, Ok-implies-near-a-root anywhere. Seeded sampling, not proof; the in-basin/anywhere halves are numerical sampling that simulation merely hosts. Since rounds 9-11: systems scaled down by powers of two (overall or per equation), polynomial scales 1e-30..1e30, in-basin guesses with exactly zero coordinates, callbacks that run a Newton solve of their own (re-entrancy), an earlier object whose callback panics part-way (caught).",
   design="§4.3",
   note="Trusted: per-iteration evaluation cost E of the documented scheme (3 scalar, n+2 finite-difference systems, 1+1 user Jacobian), doubled, as the meaning of 'bounded work'; basin radii derived in DESIGN.md §4.3; harness-side reference arithmetic (complex helpers, Gaussian elimination); under injected faults no Ok/Err expectation."),
 "C18": dict(
   engine="simcheck (scripted-callback simulator)",
   technique="deterministic simulation of the user map as a scripted, recording, possibly faulty peer: stencil classification, table/affine/smooth environments, injected NaN/Inf/panic; seeded search with shrinking",
   text="The real Mat64::jacobian / Matrix::<Cmplx>::jacobian_cmplx run against a simulated user function that classifies every evaluation point against the forward stencil, answers from a script (affine-dyadic: J == M bit for bit; arbitrary table on the stencil, NaN off it; smooth with known derivative: O(delta) bound) and injects NaN/Inf at chosen stencil points or a panic at a chosen evaluation. All 36 shapes 1..6 x 1..6 (m<n, m=n, m>n), real and complex, are enumerated in every tier; the rest is seeded sampling. 40 % of the cases run a call history first (same routine/same point/other map; a Newton solve converging onto the point), 10 % have the map call the routine re-entrantly. Oracles: shape, entries, fault containment (exactly the entries fed a non-finite value are non-finite; a loud refusal is accepted), panic propagation, loud refusal of a map that returns too few components. Repeated under 2- and 4-CPU affinity. Since rounds 9-11: one run in 2000 has a shape up to 320 x 320; half of the scripted callback panics are followed by the same call again at the same point, and that retry is judged.",
   design="§4.4",
   note="Trusted: the stencil classification tolerance (bitwise on dyadic data, 2 ulp otherwise); rounding tolerances on non-dyadic data; the callback is the only channel through which the routine sees the map. Order/multiplicity of evaluations is not constrained here."),
 "C19": dict(
   engine="simcheck (simulated disk with fault plan + reference mesh model)",
   technique="deterministic simulation: histories of mesh operations against a reference model, with the file system behind Mesh1D::output/read replaced by a seeded fault-injecting in-memory disk (short/EINTR/failed/zero writes, short/EINTR/failed reads, refused create/open); seeded search with shrinking",
   text="Real Mesh1D/Mesh2D code under seeded histories of 5..40 operations (set/get/Index/IndexMut, interpolation at nodes / mid-cell / interior points, 1-D and 2-D trapezium with exact and closed-form oracles, assign/apply, cross-sections that join the pool of live meshes, a sibling 2-D mesh of equal extents swapped in and out, var_as_matrix, output and read into fresh/shorter/longer/live meshes; grids up to 2^13 from the origin; interpolation points as close as 1e-6 to a node), mirrored by a reference model and compared through every access path after every step. output/read run their real formatting, write_all, read_to_string and parsing against a simulated disk that injects transient faults (which must be absorbed: full round trip required) and hard faults (after which the call may refuse by panicking; flagged are acknowledged-but-wrong files, reads that return wrong data, a changed writer). Repeated under 2- and 3-CPU affinity. Seeded sampling of histories and fault placements, not proof. Since rounds 9-11: stretched grids (cell widths 1/8..12288 side by side), offsets up to 2^30, 1-D meshes of 100-300 nodes, query points 1e-6*2^j from a node and nodes at zero asked for with the other sign, twelve-digit integer values, apply() with a callback that panics at its k-th node (model re-read from the mesh), and a file seam that also covers rename / remove_file / exists / copy / OpenOptions. Since round 13: 12 % of the reads are preceded, on the same reader object, by a read of a file that output() did not write (comment line in the middle, cut inside a number, header line, cut at a token boundary; outcome ignored, usually a caught panic) — the judged read that follows must still reproduce the acknowledged file. A reader refused after a hard fault retries once fault-free; if that call returns it must reproduce the file.",
   design="§4.2",
   note="Trusted: the in-memory disk's model of create(truncate)/write/read/close; that short transfers and EINTR are legal for successful calls; tolerances for printed precision and rounded quadrature/interpolation; crash/torn-write/bit-flip faults are deliberately not injected (the property claims no durability)."),
}

def main():
    hooks_commits = subprocess.run(["git","-C","/repo","log","--format=%H %s"],capture_output=True,text=True).stdout.splitlines()
    src = [l.split()[0] for l in hooks_commits if " verif:" in l]
    checks=[]
    for pid,c in sorted(CHECKS.items()):
        checks.append({
          "property_id": pid,
          "quick_cmd": f"bin/check {pid} quick",
          "thorough_cmd": f"bin/check {pid} thorough",
          "evidence_file": f"/verif/evidence/{pid}.json",
          "replay_cmd_template": "bin/check --replay {path}",
          "engine": c["engine"],
          "level_claimed": {"category":"exploration","text":c["text"],"design_ref":c["design"]},
          "level_note": c["note"],
          "technique": c["technique"],
        })
    na=[{"property_id":k,"reason":v} for k,v in sorted(NA.items()) if k not in CHECKS]
    for k in ("C17","C18","C19"):
        if k not in CHECKS:
            na.append({"property_id":k,"reason":"applicable (DESIGN.md §4) but its simulated check is not built yet at this commit; not claimed until it is"})
    m={
      "version":1,
      "setup_cmd":"bin/check build",
      "hooks":{
        "guard":"--cfg ohsl_verif",
        "enable":"RUSTFLAGS='--cfg ohsl_verif' via /verif/sim/.cargo/config.toml; /verif/sim/shadow/Cargo.toml builds /repo/src/lib.rs as package ohsl with the extra dependency shuttle (the repository's Cargo.toml/Cargo.lock are untouched)",
        "baseline_off_cmd":"cd /repo && cargo test --workspace --no-fail-fast --offline",
        "source_commits":src,
        "add_only":True,
      },
      "engines":[
        {"name":"simcheck","path":"/verif/sim/simcheck","serves_properties":sorted(CHECKS.keys()),
         "kind_free_text":"deterministic simulator: one PRNG stream per run derived from VERIF_SEED decides sizes, data, CPU count, every scheduling decision, every I/O fault and every scripted callback answer; reference-model oracles; shrinking; replay files confirmed in a fresh process"},
      ],
      "checks":checks,
      "not_applicable":na,
      "notes":"Technique family: deterministic simulation with fault injection only. See DESIGN.md (§10 as built, §11 results) and SENSITIVITY.md. Exit codes of every check: 0 held / 1 violation (VIOLATION line, replay confirmed in a fresh process) / 2 harness error (never a VIOLATION). bin/check selftest = determinism across processes, worker counts and seeds; bin/sensitivity = mutants/ + seeded/ must be caught, benign/ must stay quiet.",
    }
    json.dump(m,open("/verif/MANIFEST.json","w"),indent=1)
    print("checks:",[c["property_id"] for c in checks],"n/a:",len(na))
main()
