//! argv: <expected_cpus> <mode>   mode = "grid" (a handful of lengths around the worker count)
//! Exits 0 if every oracle holds; panics (non-zero) otherwise, printing the failing case.
use ohsl::Vector;

fn lcg(s: &mut u64) -> u64 {
    *s = s.wrapping_mul(6364136223846793005).wrapping_add(1442695040888963407);
    *s >> 33
}

fn main() {
    let args: Vec<String> = std::env::args().collect();
    let expect: usize = args.get(1).and_then(|s| s.parse().ok()).unwrap_or(0);
    let cpus = num_cpus::get();
    if expect != 0 {
        assert_eq!(cpus, expect, "MIRI-C16 stub-fidelity: num_cpus::get() = {cpus}, configured {expect}");
    }
    let w = cpus;
    let mut lens = vec![0usize, 1, 2, w.saturating_sub(1), w, w + 1, 2 * w - 1, 2 * w + 1, 3 * w, 37];
    lens.sort();
    lens.dedup();
    let mut s = 0x9E3779B97F4A7C15u64 ^ (w as u64);
    for &len in &lens {
        // exact integer data: bit-identical to the sequential product and to the integer sum
        let v: Vec<f64> = (0..len).map(|_| (lcg(&mut s) % 2001) as f64 - 1000.0).map(|x| if x == 0.0 { 1.0 } else { x }).collect();
        let u: Vec<f64> = (0..len).map(|_| (lcg(&mut s) % 2001) as f64 - 1000.0).map(|x| if x == 0.0 { -1.0 } else { x }).collect();
        let exact: i128 = v.iter().zip(u.iter()).map(|(a, b)| (*a as i128) * (*b as i128)).sum();
        let vv = Vector::<f64>::create(v.clone());
        let uu = Vector::<f64>::create(u.clone());
        let r1 = vv.dot_f64(&uu);
        let r2 = vv.dot_f64(&uu);
        let seq = vv.dot(&uu);
        assert!(r1 == exact as f64 && seq == exact as f64, "MIRI-C16 value: cpus={cpus} len={len} dot_f64={r1} dot={seq} exact={exact}");
        assert!(r1.to_bits() == r2.to_bits() || (r1 == 0.0 && r2 == 0.0), "MIRI-C16 repeat: cpus={cpus} len={len} {r1} vs {r2}");
        assert!(vv.vec == v && uu.vec == u, "MIRI-C16 operands changed: cpus={cpus} len={len}");
        // order-sensitive partial sums: the first element of worker k's chunk carries P[k], the rest
        // are zero, so the reduction order of the partial sums shows in the result bits
        let pat = [1.0e16, 1.0, -1.0e16, 1.0, 3.0e15, -3.0e15, 0.5, 7.0e15];
        let chunk = if w > 0 { len / w } else { 0 };
        let a: Vec<f64> = (0..len).map(|i| if chunk > 0 && i % chunk == 0 && i / chunk < w { pat[(i / chunk) % pat.len()] } else { 0.0 }).collect();
        let b: Vec<f64> = vec![1.0; len];
        let aa = Vector::<f64>::create(a);
        let bb = Vector::<f64>::create(b);
        let f1 = aa.dot_f64(&bb);
        let f2 = aa.dot_f64(&bb);
        assert!(f1.to_bits() == f2.to_bits() || (f1 == 0.0 && f2 == 0.0), "MIRI-C16 schedule-dependence: cpus={cpus} len={len} {f1:e} vs {f2:e}");
        println!("MIRI-C16 result cpus={cpus} len={len} bits={:016x} float_bits={:016x}", r1.to_bits(), f1.to_bits());
    }
    println!("MIRI-C16 ok cpus={cpus} lens={lens:?}");
}
