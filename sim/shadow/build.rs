// Forces a rebuild of the shadow `ohsl` crate whenever the *content* of the
// repository sources changes, even if file mtimes went backwards (restore from a
// backup, rsync -a, ...). bin/check exports OHSL_SRC_HASH = hash of <repo>/src/**.
fn main() {
    println!("cargo:rerun-if-env-changed=OHSL_SRC_HASH");
    let h = std::env::var("OHSL_SRC_HASH").unwrap_or_default();
    println!("cargo:rustc-env=OHSL_SRC_HASH={h}");
}
