//! C17 — Newton iteration against a scripted (possibly faulty) user function.
//! The simulator is the second party of the iteration protocol: it answers every
//! evaluation from a script, may answer wrongly (NaN / Inf / 1e300 at a chosen
//! evaluation or inside a chosen region), counts and hashes every call, and aborts
//! the run if the solver asks more often than any bounded scheme could.

use crate::core::*;
use crate::rng::{Fnv, Rng};
use ohsl::{Cmplx, Mat64, Matrix, Newton, Vec64, Vector};
use serde_json::{json, Value};
use std::cell::RefCell;

// ------------------------------------------------------------------ case description

#[derive(Clone, Copy, Debug, PartialEq)]
pub enum Entry {
    F64,
    C64,
    VecFd,
    VecJac,
    CVecFd,
    CVecJac,
}

impl Entry {
    pub const ALL: [Entry; 6] = [Entry::F64, Entry::C64, Entry::VecFd, Entry::VecJac, Entry::CVecFd, Entry::CVecJac];
    fn cmplx(self) -> bool {
        matches!(self, Entry::C64 | Entry::CVecFd | Entry::CVecJac)
    }
    fn system(self) -> bool {
        !matches!(self, Entry::F64 | Entry::C64)
    }
    fn has_jac(self) -> bool {
        matches!(self, Entry::VecJac | Entry::CVecJac)
    }
    fn name(self) -> &'static str {
        match self {
            Entry::F64 => "Newton<f64>::solve",
            Entry::C64 => "Newton<Cmplx>::solve",
            Entry::VecFd => "Newton<Vec64>::solve",
            Entry::VecJac => "Newton<Vec64>::solve_jacobian",
            Entry::CVecFd => "Newton<Vector<Cmplx>>::solve",
            Entry::CVecJac => "Newton<Vector<Cmplx>>::solve_jacobian",
        }
    }
    fn short(self) -> &'static str {
        match self {
            Entry::F64 => "f64",
            Entry::C64 => "cmplx",
            Entry::VecFd => "vec_fd",
            Entry::VecJac => "vec_jac",
            Entry::CVecFd => "cvec_fd",
            Entry::CVecJac => "cvec_jac",
        }
    }
    fn from_short(s: &str) -> Entry {
        *Entry::ALL.iter().find(|e| e.short() == s).expect("entry")
    }
}

#[derive(Clone, Copy, Debug, PartialEq)]
pub enum Cfg {
    /// fault-free, guess inside the basin of quadratic convergence: must succeed near the root
    InBasin,
    /// fault-free, guess anywhere: Ok implies near a root
    Anywhere,
    /// hostile or faulty function: termination, bounded work, failure reporting, replay
    Hostile,
}

#[derive(Clone, Copy, Debug, PartialEq)]
pub enum G {
    Sin,
    Tanh,
    Atan,
    Lin,
}

#[derive(Clone, Debug, PartialEq)]
pub enum Func {
    /// scale * prod_j (x - r_j)   (scalar, real or complex roots)
    Poly { roots: Vec<f64>, scale: f64 },
    /// exp(x) - c   (real scalar; root ln c)
    ExpMinus { c: f64 },
    /// sin(x - shift) - c   (real scalar; root shift + asin c)
    SinMinus { c: f64, shift: f64 },
    /// G_k = a_k x_k + eps * sum_j b_kj g(x_j) - c_k (strictly diagonally dominant), presented to the
    /// solver as F_i = signs[i] * G_{perm[i]}: same roots, same residual norm, same Newton step, but the
    /// linear solve has to pivot (perm empty = identity)
    DiagDom { a: Vec<f64>, b: Vec<f64>, eps: f64, g: G, c: Vec<f64>, root: Vec<f64>, perm: Vec<usize>, signs: Vec<f64> },
    /// x^2 + 1 componentwise (root-free on the reals)
    SqPlus1,
    /// exp(x) (root-free; scalar only)
    Exp,
    /// |x| + 1 componentwise (root-free, not differentiable at 0)
    AbsPlus1,
    /// sign(x) sqrt|x| (Newton cycles x -> -x)
    SignSqrt,
    /// constant vector with every |c_i| >= 1 (zero derivative)
    Const { c: Vec<f64> },
}

#[derive(Clone, Debug, PartialEq)]
pub enum Key {
    /// the k-th evaluation of the function within one solver call (0-based)
    Eval(usize),
    /// the k-th evaluation of the user Jacobian within one solver call
    JacEval(usize),
    /// every function evaluation at a point within `radius` (inf-norm) of `center`
    Region { center: Vec<f64>, radius: f64 },
}

#[derive(Clone, Debug, PartialEq)]
pub struct Fault {
    pub key: Key,
    /// flattened output component (taken modulo the output length)
    pub comp: usize,
    /// 0 NaN, 1 +Inf, 2 -Inf, 3 1e300
    pub value: u8,
}

#[derive(Clone, Debug)]
pub struct Case {
    pub entry: Entry,
    pub cfg: Cfg,
    pub n: usize,
    pub tol: f64,
    pub delta: f64,
    pub max_iter: usize,
    /// flattened guess (complex: re, im interleaved)
    pub guess: Vec<f64>,
    pub func: Func,
    pub faults: Vec<Fault>,
}

pub struct C17;

const BUDGET_MARK: &str = "simulator: evaluation budget exceeded";

// ------------------------------------------------------------------ complex helpers (harness side)

#[derive(Clone, Copy, Debug)]
struct Z(f64, f64);
impl Z {
    fn add(self, o: Z) -> Z {
        Z(self.0 + o.0, self.1 + o.1)
    }
    fn sub(self, o: Z) -> Z {
        Z(self.0 - o.0, self.1 - o.1)
    }
    fn mul(self, o: Z) -> Z {
        Z(self.0 * o.0 - self.1 * o.1, self.0 * o.1 + self.1 * o.0)
    }
    fn scale(self, s: f64) -> Z {
        Z(self.0 * s, self.1 * s)
    }
    fn div(self, o: Z) -> Z {
        // Smith's algorithm
        if o.0.abs() >= o.1.abs() {
            let r = o.1 / o.0;
            let d = o.0 + o.1 * r;
            Z((self.0 + self.1 * r) / d, (self.1 - self.0 * r) / d)
        } else {
            let r = o.0 / o.1;
            let d = o.0 * r + o.1;
            Z((self.0 * r + self.1) / d, (self.1 * r - self.0) / d)
        }
    }
    fn abs(self) -> f64 {
        self.0.hypot(self.1)
    }
    fn sin(self) -> Z {
        Z(self.0.sin() * self.1.cosh(), self.0.cos() * self.1.sinh())
    }
    fn cos(self) -> Z {
        Z(self.0.cos() * self.1.cosh(), -(self.0.sin() * self.1.sinh()))
    }
    fn exp(self) -> Z {
        let e = self.0.exp();
        Z(e * self.1.cos(), e * self.1.sin())
    }
}

fn g_real(g: G, x: f64) -> (f64, f64) {
    match g {
        G::Sin => (x.sin(), x.cos()),
        G::Tanh => {
            let t = x.tanh();
            (t, 1.0 - t * t)
        }
        G::Atan => (x.atan(), 1.0 / (1.0 + x * x)),
        G::Lin => (x, 1.0),
    }
}

fn g_cmplx(g: G, z: Z) -> (Z, Z) {
    match g {
        G::Sin => (z.sin(), z.cos()),
        _ => (z, Z(1.0, 0.0)),
    }
}

// ------------------------------------------------------------------ the scripted function

/// Value of the scripted function at a flattened point (no faults).
fn f_eval(case: &Case, x: &[f64]) -> Vec<f64> {
    let cm = case.entry.cmplx();
    let n = case.n;
    match &case.func {
        Func::Poly { roots, scale } => {
            if cm {
                let z = Z(x[0], x[1]);
                let mut p = Z(*scale, 0.0);
                for r in roots.chunks(2) {
                    p = p.mul(z.sub(Z(r[0], r[1])));
                }
                vec![p.0, p.1]
            } else {
                let mut p = *scale;
                for r in roots {
                    p *= x[0] - r;
                }
                vec![p]
            }
        }
        Func::ExpMinus { c } => vec![x[0].exp() - c],
        Func::SinMinus { c, shift } => vec![(x[0] - shift).sin() - c],
        Func::DiagDom { a, b, eps, g, c, perm, signs, .. } => {
            let base: Vec<f64> = if cm {
                let gz: Vec<Z> = (0..n).map(|j| g_cmplx(*g, Z(x[2 * j], x[2 * j + 1])).0).collect();
                let mut out = vec![0.0; 2 * n];
                for i in 0..n {
                    let mut s = Z(0.0, 0.0);
                    for j in 0..n {
                        s = s.add(Z(b[2 * (i * n + j)], b[2 * (i * n + j) + 1]).mul(gz[j]));
                    }
                    let v = Z(x[2 * i], x[2 * i + 1]).scale(a[i]).add(s.scale(*eps)).sub(Z(c[2 * i], c[2 * i + 1]));
                    out[2 * i] = v.0;
                    out[2 * i + 1] = v.1;
                }
                out
            } else {
                let gx: Vec<f64> = (0..n).map(|j| g_real(*g, x[j]).0).collect();
                (0..n)
                    .map(|i| {
                        let mut s = 0.0;
                        for j in 0..n {
                            s += b[i * n + j] * gx[j];
                        }
                        a[i] * x[i] + eps * s - c[i]
                    })
                    .collect()
            };
            permute_rows(&base, perm, signs, if cm { 2 } else { 1 })
        }
        Func::SqPlus1 => {
            if cm {
                x.chunks(2).flat_map(|z| [z[0] * z[0] - z[1] * z[1] + 1.0, 2.0 * z[0] * z[1]]).collect()
            } else {
                x.iter().map(|v| v * v + 1.0).collect()
            }
        }
        Func::Exp => {
            if cm {
                let e = Z(x[0], x[1]).exp();
                vec![e.0, e.1]
            } else {
                vec![x[0].exp()]
            }
        }
        Func::AbsPlus1 => x.iter().map(|v| v.abs() + 1.0).collect(),
        Func::SignSqrt => vec![if x[0] >= 0.0 { x[0].sqrt() } else { -(-x[0]).sqrt() }],
        Func::Const { c } => c.clone(),
    }
}

/// Analytic Jacobian (flattened n x n, complex interleaved) of the scripted function.
/// None where it does not exist / is not used.
fn j_eval(case: &Case, x: &[f64]) -> Option<Vec<f64>> {
    let cm = case.entry.cmplx();
    let n = case.n;
    match &case.func {
        Func::Poly { roots, scale } => {
            if cm {
                let z = Z(x[0], x[1]);
                let k = roots.len() / 2;
                let mut d = Z(0.0, 0.0);
                for s in 0..k {
                    let mut p = Z(*scale, 0.0);
                    for (t, r) in roots.chunks(2).enumerate() {
                        if t != s {
                            p = p.mul(z.sub(Z(r[0], r[1])));
                        }
                    }
                    d = d.add(p);
                }
                Some(vec![d.0, d.1])
            } else {
                let mut d = 0.0;
                for s in 0..roots.len() {
                    let mut p = *scale;
                    for (t, r) in roots.iter().enumerate() {
                        if t != s {
                            p *= x[0] - r;
                        }
                    }
                    d += p;
                }
                Some(vec![d])
            }
        }
        Func::ExpMinus { .. } => Some(vec![x[0].exp()]),
        Func::SinMinus { shift, .. } => Some(vec![(x[0] - shift).cos()]),
        Func::DiagDom { a, b, eps, g, perm, signs, .. } => {
            let base: Vec<f64> = if cm {
                let mut out = vec![0.0; 2 * n * n];
                for i in 0..n {
                    for j in 0..n {
                        let gp = g_cmplx(*g, Z(x[2 * j], x[2 * j + 1])).1;
                        let mut v = Z(b[2 * (i * n + j)], b[2 * (i * n + j) + 1]).mul(gp).scale(*eps);
                        if i == j {
                            v = v.add(Z(a[i], 0.0));
                        }
                        out[2 * (i * n + j)] = v.0;
                        out[2 * (i * n + j) + 1] = v.1;
                    }
                }
                out
            } else {
                let mut out = vec![0.0; n * n];
                for i in 0..n {
                    for j in 0..n {
                        out[i * n + j] = eps * b[i * n + j] * g_real(*g, x[j]).1 + if i == j { a[i] } else { 0.0 };
                    }
                }
                out
            };
            Some(permute_rows(&base, perm, signs, n * if cm { 2 } else { 1 }))
        }
        Func::SqPlus1 => {
            let w = if cm { 2 } else { 1 };
            let mut out = vec![0.0; n * n * w];
            for i in 0..n {
                out[(i * n + i) * w] = 2.0 * x[i * w];
                if cm {
                    out[(i * n + i) * w + 1] = 2.0 * x[i * w + 1];
                }
            }
            Some(out)
        }
        Func::Exp => {
            if cm {
                let e = Z(x[0], x[1]).exp();
                Some(vec![e.0, e.1])
            } else {
                Some(vec![x[0].exp()])
            }
        }
        Func::AbsPlus1 => {
            let w = if cm { 2 } else { 1 };
            let mut out = vec![0.0; n * n * w];
            for i in 0..n {
                out[(i * n + i) * w] = if x[i * w] >= 0.0 { 1.0 } else { -1.0 };
            }
            Some(out)
        }
        Func::SignSqrt => None,
        Func::Const { .. } => {
            let w = if cm { 2 } else { 1 };
            Some(vec![0.0; n * n * w])
        }
    }
}

/// rows of `base` (each `width` reals wide) reordered and sign-flipped: out row i = signs[i] * base row perm[i]
fn permute_rows(base: &[f64], perm: &[usize], signs: &[f64], width: usize) -> Vec<f64> {
    if perm.is_empty() {
        return base.to_vec();
    }
    let mut out = Vec::with_capacity(base.len());
    for (i, &p) in perm.iter().enumerate() {
        for k in 0..width {
            out.push(signs[i] * base[p * width + k]);
        }
    }
    out
}

fn fault_value(v: u8) -> f64 {
    match v {
        0 => f64::NAN,
        1 => f64::INFINITY,
        2 => f64::NEG_INFINITY,
        _ => 1.0e300,
    }
}

#[derive(Default)]
struct Rec {
    f_calls: usize,
    j_calls: usize,
    hist: Fnv,
    fired: Vec<usize>,
    budget: usize,
}

fn env_f(case: &Case, rec: &RefCell<Rec>, x: &[f64]) -> Vec<f64> {
    let idx = {
        let mut r = rec.borrow_mut();
        let idx = r.f_calls;
        r.f_calls += 1;
        r.hist.u64(0xF);
        for v in x {
            r.hist.f64(*v);
        }
        if r.f_calls + r.j_calls > r.budget {
            drop(r);
            panic!("{}", BUDGET_MARK);
        }
        idx
    };
    if NESTED.with(|c| c.get()) {
        run_inner(case.entry);
    }
    let mut out = f_eval(case, x);
    for (fi, f) in case.faults.iter().enumerate() {
        let hit = match &f.key {
            Key::Eval(k) => *k == idx,
            Key::JacEval(_) => false,
            Key::Region { center, radius } => x.len() == center.len() && x.iter().zip(center.iter()).all(|(a, b)| (a - b).abs() <= *radius),
        };
        if hit && !out.is_empty() {
            let c = f.comp % out.len();
            out[c] = fault_value(f.value);
            rec.borrow_mut().fired.push(fi);
        }
    }
    out
}

fn env_j(case: &Case, rec: &RefCell<Rec>, x: &[f64]) -> Vec<f64> {
    let idx = {
        let mut r = rec.borrow_mut();
        let idx = r.j_calls;
        r.j_calls += 1;
        r.hist.u64(0xA);
        for v in x {
            r.hist.f64(*v);
        }
        if r.f_calls + r.j_calls > r.budget {
            drop(r);
            panic!("{}", BUDGET_MARK);
        }
        idx
    };
    if NESTED.with(|c| c.get()) {
        run_inner(case.entry);
    }
    let w = if case.entry.cmplx() { 2 } else { 1 };
    let mut out = j_eval(case, x).unwrap_or_else(|| vec![0.0; case.n * case.n * w]);
    for (fi, f) in case.faults.iter().enumerate() {
        if let Key::JacEval(k) = &f.key {
            if *k == idx && !out.is_empty() {
                let c = f.comp % out.len();
                out[c] = fault_value(f.value);
                rec.borrow_mut().fired.push(fi);
            }
        }
    }
    out
}

// ------------------------------------------------------------------ calling the real solvers

#[derive(Clone, Debug)]
struct Solved {
    /// Ok(payload) / Err(payload), flattened; outer Err = panic message
    result: Result<(bool, Vec<f64>), String>,
    f_calls: usize,
    j_calls: usize,
    hist: u64,
    fired: Vec<usize>,
    params_intact: bool,
}

fn to_cvec(x: &[f64]) -> Vector<Cmplx> {
    Vector::<Cmplx>::create(x.chunks(2).map(|p| Cmplx::new(p[0], p[1])).collect())
}
fn from_cvec(v: &Vector<Cmplx>) -> Vec<f64> {
    v.vec.iter().flat_map(|c| [c.real, c.imag]).collect()
}
fn to_cmat(n: usize, x: &[f64]) -> Matrix<Cmplx> {
    let mut m = Matrix::<Cmplx>::new(n, n, Cmplx::new(0.0, 0.0));
    for i in 0..n {
        for j in 0..n {
            m[(i, j)] = Cmplx::new(x[2 * (i * n + j)], x[2 * (i * n + j) + 1]);
        }
    }
    m
}
fn to_mat(n: usize, x: &[f64]) -> Mat64 {
    let mut m = Mat64::new(n, n, 0.0);
    for i in 0..n {
        for j in 0..n {
            m[(i, j)] = x[i * n + j];
        }
    }
    m
}

fn budget_for(case: &Case, max_iter: usize) -> usize {
    100 * (case.n + 2) * (max_iter + 1)
}

/// One call of the real solver from `guess` with iteration limit `max_iter` on a
/// freshly constructed Newton object.
type PlanStep = (Vec<f64>, usize, f64, f64); // guess, max_iter, delta, tol

fn step_of(case: &Case, guess: &[f64], max_iter: usize) -> PlanStep {
    (guess.to_vec(), max_iter, case.delta, case.tol)
}

fn solve_once(case: &Case, guess: &[f64], max_iter: usize) -> Solved {
    solve_session(case, &[step_of(case, guess, max_iter)]).pop().unwrap()
}

thread_local! {
    /// while set, every scripted callback first runs a small Newton solve of its own (another problem,
    /// another dimension) on the same thread: an implicitly defined map. The solver under test must not
    /// notice (per-thread workspaces, caches, locks held across callbacks).
    static NESTED: std::cell::Cell<bool> = const { std::cell::Cell::new(false) };
    /// while set, the scripted callback panics after this many evaluations (a user function that fails)
    static FORCE_BUDGET: std::cell::Cell<Option<usize>> = const { std::cell::Cell::new(None) };
}

struct NestedGuard;
impl Drop for NestedGuard {
    fn drop(&mut self) {
        NESTED.with(|c| c.set(false));
        FORCE_BUDGET.with(|c| c.set(None));
    }
}

/// the nested solve: same family of entry point as the outer one, a fixed well-behaved problem
fn run_inner(entry: Entry) {
    match entry {
        Entry::F64 => {
            let mut nw = Newton::<f64>::new(1.25);
            nw.tolerance(1e-10);
            nw.delta(1e-8);
            nw.iterations(3);
            let _ = nw.solve(&|x: f64| x * x - 2.0);
        }
        Entry::C64 => {
            let mut nw = Newton::<Cmplx>::new(Cmplx::new(0.25, 0.75));
            nw.tolerance(1e-10);
            nw.delta(1e-8);
            nw.iterations(3);
            let _ = nw.solve(&|z: Cmplx| z * z + Cmplx::new(1.0, 0.0));
        }
        Entry::VecFd | Entry::VecJac => {
            let mut nw = Newton::<Vec64>::new(Vector::<f64>::create(vec![0.875, 1.125, 0.75]));
            nw.tolerance(1e-10);
            nw.delta(1e-8);
            nw.iterations(3);
            let _ = nw.solve(&|y: Vec64| Vector::<f64>::create(vec![4.0 * y[0] + y[1] - 5.0 + 0.125 * y[2] * y[2] - 0.125, 5.0 * y[1] - y[2] - 4.0, 3.0 * y[2] + 0.25 * y[0] * y[0] - 3.25]));
        }
        Entry::CVecFd | Entry::CVecJac => {
            let mut nw = Newton::<Vector<Cmplx>>::new(Vector::<Cmplx>::create(vec![Cmplx::new(0.875, 0.125), Cmplx::new(1.125, -0.125), Cmplx::new(0.75, 0.0)]));
            nw.tolerance(1e-10);
            nw.delta(1e-8);
            nw.iterations(3);
            let one = Cmplx::new(1.0, 0.0);
            let _ = nw.solve(&|y: Vector<Cmplx>| Vector::<Cmplx>::create(vec![y[0] * 4.0 + y[1] - one * 5.0, y[1] * 5.0 - y[2] - one * 4.0, y[2] * 3.0 + y[0] * y[0] * 0.25 - one * 3.25]));
        }
    }
}

fn fresh_rec(case: &Case, max_iter: usize) -> Rec {
    let budget = FORCE_BUDGET.with(|c| c.get()).unwrap_or_else(|| budget_for(case, max_iter));
    Rec { budget, ..Default::default() }
}

fn finish(rec: &RefCell<Rec>, result: Result<(bool, Vec<f64>), String>, params_intact: bool) -> Solved {
    let r = rec.replace(Rec::default());
    Solved { result, f_calls: r.f_calls, j_calls: r.j_calls, hist: r.hist.finish(), fired: r.fired, params_intact }
}

/// A session: ONE Newton object, reconfigured through its public setters
/// (`iterations`, `guess`) before each of the planned solver calls. The script
/// (evaluation counters, history) is rewound before every call.
fn solve_session(case: &Case, plan: &[PlanStep]) -> Vec<Solved> {
    let rec = RefCell::new(Rec::default());
    let n = case.n;
    let mut out = Vec::with_capacity(plan.len());
    match case.entry {
        Entry::F64 => {
            let f = |x: f64| -> f64 { env_f(case, &rec, &[x])[0] };
            let mut nw = Newton::<f64>::new(plan[0].0[0]);
            for (step, (guess, max_iter, delta, tol)) in plan.iter().enumerate() {
                if step == 0 || plan[step - 1] != plan[step] {
                    nw.tolerance(*tol);
                    nw.delta(*delta);
                    nw.iterations(*max_iter);
                    nw.guess(guess[0]);
                }
                rec.replace(fresh_rec(case, *max_iter));
                let before = nw.parameters();
                let r = catch(|| nw.solve(&f));
                let after = nw.parameters();
                let intact = before.0.to_bits() == after.0.to_bits() && before.1.to_bits() == after.1.to_bits() && before.2 == after.2 && before.3.to_bits() == after.3.to_bits()
                    && after.0.to_bits() == tol.to_bits() && after.1.to_bits() == delta.to_bits() && after.2 == *max_iter && after.3.to_bits() == guess[0].to_bits();
                let res = r.map(|res| match res {
                    Ok(x) => (true, vec![x]),
                    Err(x) => (false, vec![x]),
                });
                out.push(finish(&rec, res, intact));
            }
        }
        Entry::C64 => {
            let f = |z: Cmplx| -> Cmplx {
                let o = env_f(case, &rec, &[z.real, z.imag]);
                Cmplx::new(o[0], o[1])
            };
            let mut nw = Newton::<Cmplx>::new(Cmplx::new(plan[0].0[0], plan[0].0[1]));
            for (step, (guess, max_iter, delta, tol)) in plan.iter().enumerate() {
                if step == 0 || plan[step - 1] != plan[step] {
                    nw.tolerance(*tol);
                    nw.delta(*delta);
                    nw.iterations(*max_iter);
                    nw.guess(Cmplx::new(guess[0], guess[1]));
                }
                rec.replace(fresh_rec(case, *max_iter));
                let before = nw.parameters();
                let r = catch(|| nw.solve(&f));
                let after = nw.parameters();
                let intact = before.0.to_bits() == after.0.to_bits() && before.1.to_bits() == after.1.to_bits() && before.2 == after.2
                    && before.3.real.to_bits() == after.3.real.to_bits() && before.3.imag.to_bits() == after.3.imag.to_bits()
                    && after.0.to_bits() == tol.to_bits() && after.1.to_bits() == delta.to_bits() && after.2 == *max_iter
                    && after.3.real.to_bits() == guess[0].to_bits() && after.3.imag.to_bits() == guess[1].to_bits();
                let res = r.map(|res| match res {
                    Ok(z) => (true, vec![z.real, z.imag]),
                    Err(z) => (false, vec![z.real, z.imag]),
                });
                out.push(finish(&rec, res, intact));
            }
        }
        Entry::VecFd | Entry::VecJac => {
            let f = |x: Vec64| -> Vec64 { Vector::<f64>::create(env_f(case, &rec, &x.vec)) };
            let j = |x: Vec64| -> Mat64 { to_mat(n, &env_j(case, &rec, &x.vec)) };
            let mut nw = Newton::<Vec64>::new(Vector::<f64>::create(plan[0].0.clone()));
            for (step, (guess, max_iter, delta, tol)) in plan.iter().enumerate() {
                if step == 0 || plan[step - 1] != plan[step] {
                    nw.tolerance(*tol);
                    nw.delta(*delta);
                    nw.iterations(*max_iter);
                    nw.guess(Vector::<f64>::create(guess.clone()));
                }
                rec.replace(fresh_rec(case, *max_iter));
                let r = if case.entry == Entry::VecFd { catch(|| nw.solve(&f)) } else { catch(|| nw.solve_jacobian(&f, &j)) };
                let res = r.map(|res| match res {
                    Ok(x) => (true, x.vec.clone()),
                    Err(x) => (false, x.vec.clone()),
                });
                out.push(finish(&rec, res, true));
            }
        }
        Entry::CVecFd | Entry::CVecJac => {
            let f = |z: Vector<Cmplx>| -> Vector<Cmplx> { to_cvec(&env_f(case, &rec, &from_cvec(&z))) };
            let j = |z: Vector<Cmplx>| -> Matrix<Cmplx> { to_cmat(n, &env_j(case, &rec, &from_cvec(&z))) };
            let mut nw = Newton::<Vector<Cmplx>>::new(to_cvec(&plan[0].0));
            for (step, (guess, max_iter, delta, tol)) in plan.iter().enumerate() {
                if step == 0 || plan[step - 1] != plan[step] {
                    nw.tolerance(*tol);
                    nw.delta(*delta);
                    nw.iterations(*max_iter);
                    nw.guess(to_cvec(guess));
                }
                rec.replace(fresh_rec(case, *max_iter));
                let r = if case.entry == Entry::CVecFd { catch(|| nw.solve(&f)) } else { catch(|| nw.solve_jacobian(&f, &j)) };
                let res = r.map(|res| match res {
                    Ok(x) => (true, from_cvec(&x)),
                    Err(x) => (false, from_cvec(&x)),
                });
                out.push(finish(&rec, res, true));
            }
        }
    }
    out
}

// ------------------------------------------------------------------ oracles helpers

/// bitwise equality, any NaN equal to any NaN, +0 == -0
fn same_bits(a: &[f64], b: &[f64]) -> bool {
    a.len() == b.len()
        && a.iter().zip(b.iter()).all(|(x, y)| (x.is_nan() && y.is_nan()) || x.to_bits() == y.to_bits() || (*x == 0.0 && *y == 0.0))
}

fn same_result(a: &Result<(bool, Vec<f64>), String>, b: &Result<(bool, Vec<f64>), String>) -> bool {
    match (a, b) {
        (Ok((oa, xa)), Ok((ob, xb))) => oa == ob && same_bits(xa, xb),
        (Err(_), Err(_)) => true,
        _ => false,
    }
}

fn fmt_res(r: &Result<(bool, Vec<f64>), String>) -> String {
    match r {
        Ok((true, x)) => format!("Ok({x:?})"),
        Ok((false, x)) => format!("Err({x:?})"),
        Err(m) => format!("panic({})", normalise_panic(m)),
    }
}

/// distance (inf-norm over variables; modulus for complex) of x to the nearest root.
fn dist_to_root(case: &Case, x: &[f64]) -> Option<f64> {
    let cm = case.entry.cmplx();
    match &case.func {
        Func::Poly { roots, .. } => {
            if cm {
                Some(roots.chunks(2).map(|r| (x[0] - r[0]).hypot(x[1] - r[1])).fold(f64::INFINITY, f64::min))
            } else {
                Some(roots.iter().map(|r| (x[0] - r).abs()).fold(f64::INFINITY, f64::min))
            }
        }
        Func::ExpMinus { c } => Some((x[0] - c.ln()).abs()),
        Func::SinMinus { c, shift } => {
            // nearest root among shift + asin c + 2k pi and shift + pi - asin c + 2k pi
            let two_pi = 2.0 * std::f64::consts::PI;
            let a = shift + c.asin();
            let b = shift + std::f64::consts::PI - c.asin();
            let near = |r: f64| {
                let k = ((x[0] - r) / two_pi).round();
                (x[0] - (r + k * two_pi)).abs()
            };
            Some(near(a).min(near(b)))
        }
        Func::SqPlus1 if cm => Some(x.chunks(2).map(|z| z[0].hypot(z[1] - 1.0).min(z[0].hypot(z[1] + 1.0))).fold(0.0, |m: f64, d| if d.is_nan() { f64::NAN } else { m.max(d) })),
        Func::DiagDom { root, .. } => {
            if cm {
                Some(x.chunks(2).zip(root.chunks(2)).map(|(a, b)| (a[0] - b[0]).hypot(a[1] - b[1])).fold(0.0, f64::max))
            } else {
                Some(x.iter().zip(root.iter()).map(|(a, b)| (a - b).abs()).fold(0.0, f64::max))
            }
        }
        _ => None,
    }
}

/// (margin mu of diagonal dominance given Lipschitz constant l1 of g)
fn diag_margin(case: &Case, l1: f64) -> f64 {
    if let Func::DiagDom { a, b, eps, .. } = &case.func {
        let n = case.n;
        let cm = case.entry.cmplx();
        let mut mu = f64::INFINITY;
        for i in 0..n {
            let mut s = 0.0;
            for j in 0..n {
                s += if cm { b[2 * (i * n + j)].hypot(b[2 * (i * n + j) + 1]) } else { b[i * n + j].abs() };
            }
            mu = mu.min(a[i].abs() - eps * s * l1);
        }
        mu
    } else {
        f64::NAN
    }
}

/// smallest factor by which an equation of a diagonally dominant system has been scaled (1 if none):
/// the system solvers stop on the residual, so "of the order of the tolerance" is tol / this
fn row_scale_min(case: &Case) -> f64 {
    if let Func::DiagDom { signs, .. } = &case.func {
        signs.iter().map(|s| s.abs()).fold(1.0, f64::min)
    } else {
        1.0
    }
}

fn scale_of(case: &Case) -> f64 {
    let mut s: f64 = 1.0;
    for g in &case.guess {
        s = s.max(g.abs());
    }
    match &case.func {
        Func::Poly { roots, .. } => {
            for r in roots {
                s = s.max(r.abs());
            }
        }
        Func::DiagDom { root, .. } => {
            for r in root {
                s = s.max(r.abs());
            }
        }
        _ => {}
    }
    s
}

/// Gaussian elimination with partial pivoting on the harness side (reference model
/// for one Newton step). Complex via the Z type. Returns None if singular.
fn ref_solve(n: usize, cm: bool, a: &[f64], b: &[f64]) -> Option<Vec<f64>> {
    let mut m: Vec<Vec<Z>> = (0..n)
        .map(|i| (0..n).map(|j| if cm { Z(a[2 * (i * n + j)], a[2 * (i * n + j) + 1]) } else { Z(a[i * n + j], 0.0) }).collect())
        .collect();
    let mut r: Vec<Z> = (0..n).map(|i| if cm { Z(b[2 * i], b[2 * i + 1]) } else { Z(b[i], 0.0) }).collect();
    for k in 0..n {
        let mut p = k;
        for i in k + 1..n {
            if m[i][k].abs() > m[p][k].abs() {
                p = i;
            }
        }
        if !(m[p][k].abs() > 1e-300) {
            return None;
        }
        m.swap(k, p);
        r.swap(k, p);
        for i in k + 1..n {
            let f = m[i][k].div(m[k][k]);
            for j in k..n {
                let t = f.mul(m[k][j]);
                m[i][j] = m[i][j].sub(t);
            }
            let t = f.mul(r[k]);
            r[i] = r[i].sub(t);
        }
    }
    let mut x = vec![Z(0.0, 0.0); n];
    for k in (0..n).rev() {
        let mut s = r[k];
        for j in k + 1..n {
            s = s.sub(m[k][j].mul(x[j]));
        }
        x[k] = s.div(m[k][k]);
    }
    Some(if cm { x.iter().flat_map(|z| [z.0, z.1]).collect() } else { x.iter().map(|z| z.0).collect() })
}

/// Reference Newton step N(x0) = x0 - J(x0)^-1 F(x0) with the analytic Jacobian; the size of the
/// step; and an estimate of the relative error the documented difference scheme makes in that step
/// (truncation error of the difference quotients measured on the analytic Jacobian itself, times
/// the norm of the inverse). None when the step is ill-conditioned or undefined.
fn ref_step(case: &Case, x0: &[f64]) -> Option<(Vec<f64>, f64, f64)> {
    let cm = case.entry.cmplx();
    let n = case.n;
    let w = if cm { 2 } else { 1 };
    let f = f_eval(case, x0);
    let j = j_eval(case, x0)?;
    if f.iter().chain(j.iter()).any(|v| !v.is_finite()) {
        return None;
    }
    // conditioning guard: derivative must not be small relative to the function
    let fnorm = f.iter().fold(0.0f64, |m, v| m.max(v.abs()));
    if !case.entry.system() {
        let d = if cm { j[0].hypot(j[1]) } else { j[0].abs() };
        if !(d >= 1e-2 * fnorm && d > 1e-6) {
            return None;
        }
    } else if let Func::DiagDom { .. } = case.func {
        // diagonally dominant: well conditioned by construction
    } else {
        // diagonal Jacobians of the hostile systems: guard every pivot
        for i in 0..n {
            let d = j[(i * n + i) * w].abs();
            if !(d >= 1e-2 * fnorm && d > 1e-6) {
                return None;
            }
        }
    }
    let dx = ref_solve(n, cm, &j, &f)?;
    let x1: Vec<f64> = x0.iter().zip(dx.iter()).map(|(a, b)| a - b).collect();
    let step = dx.iter().fold(0.0f64, |m, v| m.max(v.abs()));
    if !step.is_finite() {
        return None;
    }
    // truncation error of the scheme's derivative, estimated from the analytic Jacobian nearby
    let d = case.delta;
    let mag = |v: &[f64]| v.iter().fold(0.0f64, |m, x| m.max(x.abs()));
    let rel = if !case.entry.system() {
        // central difference: error about delta^2 * (third derivative) / 6, i.e. the second difference of the derivative / 6
        let mut xp = x0.to_vec();
        let mut xm = x0.to_vec();
        xp[0] += d;
        xm[0] -= d;
        let (jp, jm) = (j_eval(case, &xp)?, j_eval(case, &xm)?);
        let second: Vec<f64> = (0..w).map(|k| jp[k] - 2.0 * j[k] + jm[k]).collect();
        mag(&second) / 6.0 / mag(&j[..w]).max(1e-300)
    } else if case.entry.has_jac() {
        0.0
    } else {
        // forward difference: the error of column c is about (J(x + d e_c) - J(x))[:, c] / 2
        let mut e_max: f64 = 0.0;
        for c in 0..n {
            let mut xp = x0.to_vec();
            xp[c * w] += d;
            let jp = j_eval(case, &xp)?;
            for r in 0..n {
                for k in 0..w {
                    e_max = e_max.max(0.5 * (jp[(r * n + c) * w + k] - j[(r * n + c) * w + k]).abs());
                }
            }
        }
        // inf-norm of the inverse by solving for the unit vectors
        let mut inv_norm_rows = vec![0.0f64; n];
        for c in 0..n {
            let mut e = vec![0.0; n * w];
            e[c * w] = 1.0;
            let col = ref_solve(n, cm, &j, &e)?;
            for r in 0..n {
                inv_norm_rows[r] += if cm { col[2 * r].hypot(col[2 * r + 1]) } else { col[r].abs() };
            }
        }
        let inv_norm = inv_norm_rows.iter().fold(0.0f64, |m, v| m.max(*v));
        inv_norm * e_max * n as f64 * if cm { 2.0 } else { 1.0 }
    };
    if !(rel.is_finite() && rel <= 0.02) {
        return None; // the scheme's own derivative error is too large here for a one-step comparison
    }
    Some((x1, step, rel))
}

fn smooth(func: &Func) -> bool {
    matches!(func, Func::Poly { .. } | Func::ExpMinus { .. } | Func::SinMinus { .. } | Func::DiagDom { .. } | Func::SqPlus1 | Func::Exp)
}

/// scripts on which the stopping criterion can never be met (tol < 1/2)
fn never_ok(case: &Case) -> bool {
    match (&case.func, case.entry) {
        (Func::SqPlus1, Entry::F64) | (Func::Exp, Entry::F64) | (Func::AbsPlus1, Entry::F64) | (Func::Const { .. }, _) => true,
        (Func::Exp, Entry::C64) => true,
        (Func::SqPlus1, Entry::VecFd | Entry::VecJac) | (Func::AbsPlus1, Entry::VecFd | Entry::VecJac) => true,
        _ => false,
    }
}

// ------------------------------------------------------------------ generation

fn log_uniform(rng: &mut Rng, lo: f64, hi: f64) -> f64 {
    (rng.uniform(lo.ln(), hi.ln())).exp()
}

fn gen_poly_real(rng: &mut Rng) -> (Vec<f64>, f64, f64) {
    let deg = rng.urange(2, 5);
    let d = rng.uniform(0.5, 1.0);
    let mut roots = vec![rng.uniform(-4.0, -2.0)];
    for _ in 1..deg {
        let last = *roots.last().unwrap();
        roots.push(last + d + rng.uniform(0.0, 1.2));
    }
    let scale = poly_scale(rng);
    (roots, scale, d)
}

/// Newton's iterates and the |dx| stopping test are invariant under scaling f by a constant:
/// 30 % of the polynomials are scaled by up to 1e+-10 (a derivative guard with an absolute
/// threshold, say, would break the in-basin guarantee only there).
fn poly_scale(rng: &mut Rng) -> f64 {
    let sign = if rng.chance(0.5) { -1.0 } else { 1.0 };
    if rng.chance(0.3) {
        // (a third of them in really small or large units: Boltzmann's constant times something is 1e-23)
        if rng.chance(0.33) { sign * log_uniform(rng, 1e-30, 1e30) } else { sign * log_uniform(rng, 1e-10, 1e10) }
    } else {
        sign * rng.uniform(0.5, 2.0)
    }
}

fn gen_poly_cmplx(rng: &mut Rng) -> (Vec<f64>, f64, f64) {
    let deg = rng.urange(2, 5);
    let d = rng.uniform(0.5, 1.0);
    let mut roots: Vec<f64> = vec![];
    let mut tries = 0;
    while roots.len() < 2 * deg && tries < 10_000 {
        tries += 1;
        let (re, im) = (rng.uniform(-3.0, 3.0), rng.uniform(-3.0, 3.0));
        if roots.chunks(2).all(|r| (r[0] - re).hypot(r[1] - im) >= d) {
            roots.push(re);
            roots.push(im);
        }
    }
    let scale = poly_scale(rng);
    (roots, scale, d)
}

/// returns (func, mu lower bound, K Lipschitz constant of the Jacobian, lipschitz l1 used)
fn gen_diagdom(rng: &mut Rng, n: usize, cm: bool, global_only: bool) -> (Func, f64, f64) {
    let g = if cm {
        if global_only || rng.chance(0.3) { G::Lin } else { G::Sin }
    } else {
        *rng.pick(&[G::Sin, G::Tanh, G::Atan, G::Lin])
    };
    let (amin, l1, l2, budget) = if cm { (3.0, 1.6, 1.6, 1.2) } else { (2.0, 1.0, 1.0, 1.5) };
    let a: Vec<f64> = (0..n).map(|_| rng.uniform(amin, 10.0)).collect();
    let w = if cm { 2 } else { 1 };
    let b: Vec<f64> = (0..n * n * w).map(|_| {
        let v = rng.uniform(-0.7, 0.7);
        if v.abs() < 0.05 { 0.05 } else { v }
    }).collect();
    let eps = rng.uniform(0.0, budget / n as f64);
    let root: Vec<f64> = if cm {
        (0..n).flat_map(|_| [rng.uniform(-2.0, 2.0), rng.uniform(-0.5, 0.5)]).collect()
    } else {
        (0..n).map(|_| rng.uniform(-3.0, 3.0)).collect()
    };
    // 30 %: sparse coupling (most off-diagonal entries exactly zero)
    let mut b = b;
    if rng.chance(0.3) {
        for i in 0..n {
            for j in 0..n {
                if i != j && rng.chance(0.7) {
                    for k in 0..w {
                        b[(i * n + j) * w + k] = 0.0;
                    }
                }
            }
        }
    }
    // 40 %: equations shuffled and some negated, so that Gaussian elimination must pivot
    let (perm, signs) = if n >= 2 && rng.chance(0.4) {
        let mut p: Vec<usize> = (0..n).collect();
        rng.shuffle(&mut p);
        (p, (0..n).map(|_| if rng.chance(0.5) { -1.0 } else { 1.0 }).collect())
    } else {
        (vec![], vec![])
    };
    // 25 %: the whole system, or single equations, scaled down by powers of two — same roots, same Newton
    // iterates, same family; whatever compares a determinant, a pivot or a Jacobian entry with an absolute
    // threshold breaks here (|det J| of a well-conditioned 6x6 system in units of 1e-3 is 1e-18)
    let (perm, signs) = if rng.chance(0.25) {
        let (mut p, mut s) = (perm, signs);
        if p.is_empty() {
            p = (0..n).collect();
            s = vec![1.0; n];
        }
        let uniform = rng.chance(0.6);
        let k0 = rng.range(1, 30);
        for si in s.iter_mut() {
            let k = if uniform { k0 } else { rng.range(0, 30) };
            *si *= (2.0f64).powi(-(k as i32));
        }
        (p, s)
    } else {
        (perm, signs)
    };
    let mut f = Func::DiagDom { a, b, eps, g, c: vec![0.0; n * w], root: root.clone(), perm: vec![], signs: vec![] };
    // c := a x* + eps B g(x*), computed with the very formula f_eval uses
    let tmp = Case { entry: if cm { Entry::CVecFd } else { Entry::VecFd }, cfg: Cfg::InBasin, n, tol: 0.0, delta: 0.0, max_iter: 0, guess: vec![], func: f.clone(), faults: vec![] };
    let at_root = f_eval(&tmp, &root);
    if let Func::DiagDom { c, perm: pp, signs: ss, .. } = &mut f {
        *c = at_root; // computed with the identity presentation
        *pp = perm;
        *ss = signs;
    }
    let tmp2 = Case { func: f.clone(), ..tmp };
    let mu = diag_margin(&tmp2, if g == G::Lin { 1.0 } else { l1 });
    let bnorm = if let Func::DiagDom { b, .. } = &f {
        (0..n).map(|i| (0..n).map(|j| if cm { b[2 * (i * n + j)].hypot(b[2 * (i * n + j) + 1]) } else { b[i * n + j].abs() }).sum::<f64>()).fold(0.0, f64::max)
    } else {
        0.0
    };
    let k = if g == G::Lin { 0.0 } else { eps * bnorm * l2 };
    (f, mu, k)
}

fn gen_faults(rng: &mut Rng, case: &Case) -> Vec<Fault> {
    let mut out = vec![];
    let n = case.n;
    let per_iter = if case.entry.system() { if case.entry.has_jac() { 1 } else { n + 2 } } else { 3 };
    let horizon = (per_iter * case.max_iter).max(1);
    let count = rng.urange(1, 2);
    for _ in 0..count {
        let key = match rng.below(10) {
            0..=4 => {
                // bias: first evaluation, last evaluation, inside a Jacobian column, anywhere
                let k = match rng.below(4) {
                    0 => 0,
                    1 => horizon - 1,
                    2 => (rng.usize_below(case.max_iter.max(1))) * per_iter + rng.usize_below(per_iter),
                    _ => rng.usize_below(horizon),
                };
                Key::Eval(k)
            }
            5..=6 if case.entry.has_jac() => Key::JacEval(rng.usize_below(case.max_iter.max(1))),
            _ => {
                let center: Vec<f64> = case.guess.iter().map(|g| g + rng.uniform(-1.0, 1.0)).collect();
                Key::Region { center, radius: log_uniform(rng, 1e-3, 2.0) }
            }
        };
        out.push(Fault { key, comp: rng.usize_below(64), value: rng.below(4) as u8 });
    }
    out
}

impl C17 {
    fn gen_case(&self, rng: &mut Rng, tier: Tier, run: u64) -> Case {
        let entry = Entry::ALL[(run % 6) as usize];
        let cfg = match (run / 6) % 5 {
            0 => Cfg::InBasin,
            1 => Cfg::Anywhere,
            _ => Cfg::Hostile,
        };
        let cm = entry.cmplx();
        let w = if cm { 2 } else { 1 };
        let max_dim = if rng.chance(if tier == Tier::Thorough { 0.05 } else { 0.03 }) { 9 } else { 6 };
        let n = if entry.system() { rng.urange(1, max_dim) } else { 1 };
        let tol = log_uniform(rng, 1e-12, 1e-4);
        let delta = match rng.below(20) {
            0..=9 => 1e-8,
            10..=14 => 1e-6,
            15..=17 => 1e-4,
            _ => 1e-3,
        };
        let mut frng = rng.fork(1);
        let mut grng = rng.fork(2);
        match cfg {
            Cfg::InBasin => {
                let max_iter = rng.urange(15, 50);
                let (func, guess) = if !entry.system() {
                    if cm {
                        let (roots, scale, d) = gen_poly_cmplx(&mut frng);
                        let deg = roots.len() / 2;
                        let t = grng.usize_below(deg);
                        let rad = d / (4.0 * deg as f64) * grng.unit();
                        let th = grng.uniform(0.0, std::f64::consts::TAU);
                        let guess = vec![roots[2 * t] + rad * th.cos(), roots[2 * t + 1] + rad * th.sin()];
                        (Func::Poly { roots, scale }, guess)
                    } else {
                        match frng.below(4) {
                            0 => {
                                let c = frng.uniform(0.2, 5.0);
                                (Func::ExpMinus { c }, vec![c.ln() + grng.uniform(-0.3, 0.3)])
                            }
                            1 => {
                                let c = frng.uniform(-0.8, 0.8);
                                let shift = frng.uniform(-3.0, 3.0);
                                (Func::SinMinus { c, shift }, vec![shift + c.asin() + grng.uniform(-0.2, 0.2)])
                            }
                            _ => {
                                let (roots, scale, d) = gen_poly_real(&mut frng);
                                let deg = roots.len();
                                let t = grng.usize_below(deg);
                                let e = d / (4.0 * deg as f64) * grng.uniform(-1.0, 1.0);
                                let guess = vec![roots[t] + e];
                                (Func::Poly { roots, scale }, guess)
                            }
                        }
                    }
                } else {
                    let (func, mu, k) = gen_diagdom(&mut frng, n, cm, false);
                    let cap = if cm { 0.3 } else { 1.0 };
                    let rho = if k > 0.0 { (mu / (8.0 * k)).min(cap) } else { cap };
                    let root = if let Func::DiagDom { root, .. } = &func { root.clone() } else { unreachable!() };
                    let guess: Vec<f64> = if cm {
                        root.chunks(2).flat_map(|r| {
                            let rad = rho * grng.unit();
                            let th = grng.uniform(0.0, std::f64::consts::TAU);
                            [r[0] + rad * th.cos(), r[1] + rad * th.sin()]
                        }).collect()
                    } else {
                        root.iter().map(|r| r + grng.uniform(-rho, rho)).collect()
                    };
                    // coordinates of the guess that may be exactly zero (the most common first guess there is)
                    // are, half of the time: +0.0 or -0.0 — still inside the basin
                    let mut guess = guess;
                    for i in 0..n {
                        let inside = if cm { root[2 * i].hypot(root[2 * i + 1]) <= rho } else { root[i].abs() <= rho };
                        if inside && grng.chance(0.5) {
                            let z = if grng.chance(0.25) { -0.0 } else { 0.0 };
                            if cm {
                                guess[2 * i] = z;
                                guess[2 * i + 1] = 0.0;
                            } else {
                                guess[i] = z;
                            }
                        }
                    }
                    (func, guess)
                };
                Case { entry, cfg, n, tol, delta, max_iter, guess, func, faults: vec![] }
            }
            Cfg::Anywhere => {
                let max_iter = rng.urange(0, 50);
                let (func, guess) = if cm && frng.chance(0.3) {
                    // z^2 + 1 componentwise: roots +-i; singular at 0, chaotic on the real axis
                    let guess: Vec<f64> = (0..n).flat_map(|_| match grng.below(4) {
                        0 => [0.0, 0.0],
                        1 => [grng.uniform(-3.0, 3.0), 0.0],
                        _ => [grng.uniform(-3.0, 3.0), grng.uniform(-3.0, 3.0)],
                    }).collect();
                    (Func::SqPlus1, guess)
                } else if !entry.system() {
                    if cm {
                        let (roots, scale, _) = gen_poly_cmplx(&mut frng);
                        (Func::Poly { roots, scale }, vec![grng.uniform(-6.0, 6.0), grng.uniform(-6.0, 6.0)])
                    } else {
                        let (roots, scale, _) = gen_poly_real(&mut frng);
                        (Func::Poly { roots, scale }, vec![grng.uniform(-8.0, 8.0)])
                    }
                } else {
                    let (func, _, _) = gen_diagdom(&mut frng, n, cm, cm);
                    let guess: Vec<f64> = (0..n * w).map(|_| grng.uniform(-6.0, 6.0)).collect();
                    (func, guess)
                };
                Case { entry, cfg, n, tol, delta, max_iter, guess, func, faults: vec![] }
            }
            Cfg::Hostile => {
                let max_iter = match rng.below(10) {
                    0 => 0,
                    1 => 1,
                    2 => 50,
                    _ => rng.urange(0, 50),
                };
                // a fifth of the components sit exactly at 0 (stationary points of x^2+1, |x|+1, sign(x)sqrt|x|)
                let guess: Vec<f64> = (0..n * w).map(|_| if grng.chance(0.2) { 0.0 } else { grng.uniform(-5.0, 5.0) }).collect();
                let hostile_script = rng.chance(0.5);
                let func = if hostile_script {
                    match entry {
                        Entry::F64 => match frng.below(5) {
                            0 => Func::SqPlus1,
                            1 => Func::Exp,
                            2 => Func::AbsPlus1,
                            3 => Func::SignSqrt,
                            _ => Func::Const { c: vec![frng.uniform(1.0, 9.0) * if frng.chance(0.5) { -1.0 } else { 1.0 }] },
                        },
                        Entry::C64 => match frng.below(2) {
                            0 => Func::Exp,
                            _ => Func::Const { c: vec![frng.uniform(1.0, 9.0), frng.uniform(-3.0, 3.0)] },
                        },
                        Entry::VecFd | Entry::VecJac => match frng.below(3) {
                            0 => Func::SqPlus1,
                            1 => Func::AbsPlus1,
                            _ => Func::Const { c: (0..n).map(|_| frng.uniform(1.0, 9.0) * if frng.chance(0.5) { -1.0 } else { 1.0 }).collect() },
                        },
                        Entry::CVecFd | Entry::CVecJac => Func::Const { c: (0..n).flat_map(|_| [frng.uniform(1.0, 9.0), frng.uniform(-3.0, 3.0)]).collect() },
                    }
                } else if !entry.system() {
                    if cm {
                        let (roots, scale, _) = gen_poly_cmplx(&mut frng);
                        Func::Poly { roots, scale }
                    } else {
                        let (roots, scale, _) = gen_poly_real(&mut frng);
                        Func::Poly { roots, scale }
                    }
                } else {
                    gen_diagdom(&mut frng, n, cm, false).0
                };
                let mut case = Case { entry, cfg, n, tol, delta, max_iter, guess, func, faults: vec![] };
                // honest scripts always get faults; hostile scripts get them half of the time
                let mut xrng = rng.fork(3);
                if !hostile_script || xrng.chance(0.5) {
                    case.faults = gen_faults(&mut xrng, &case);
                }
                case
            }
        }
    }
}

// ------------------------------------------------------------------ the property

impl Prop for C17 {
    type Case = Case;

    fn id(&self) -> &'static str {
        "C17"
    }
    fn tag(&self) -> u64 {
        17
    }
    fn runs(&self, tier: Tier) -> u64 {
        match tier {
            Tier::Quick => 200_000,
            Tier::Thorough => 12_000_000,
        }
    }

    fn generate(&self, rng: &mut Rng, tier: Tier, run: u64) -> Case {
        self.gen_case(rng, tier, run)
    }

    fn execute(&self, case: &Case, stats: &mut Stats) -> Verdict {
        let e = case.entry;
        let en = e.short();
        let n = case.n;
        let k = case.max_iter;
        let index_faults = case.faults.iter().any(|f| matches!(f.key, Key::Eval(_) | Key::JacEval(_)));
        let faulted = !case.faults.is_empty();

        // ---- reach
        let mut ch = Fnv::new();
        ch.str(en);
        ch.u64(n as u64);
        ch.u64(k as u64);
        ch.f64(case.tol);
        ch.f64(case.delta);
        for g in &case.guess {
            ch.f64(*g);
        }
        ch.str(&format!("{:?}{:?}", case.func, case.faults));
        stats.seen("nontrivial_cases", ch.finish());
        stats.count(&format!("entry.{en}"));
        stats.count(match case.cfg {
            Cfg::InBasin => "config.in_basin",
            Cfg::Anywhere => "config.anywhere",
            Cfg::Hostile => "config.hostile",
        });
        if k == 0 {
            stats.count("probe.max_iter_zero");
        }
        if e.system() && n == 1 {
            stats.count("probe.dimension_1");
        }
        if e.system() && n >= 6 {
            stats.count("probe.dimension_6_plus");
        }

        // ---- main call, then `repeats` further calls ON THE SAME OBJECT with the script rewound
        // (oracle 5). repeats is derived from the case, not drawn: 2..=4, up to 12 for in-basin runs.
        let mut rh = Fnv::new();
        rh.u64(k as u64);
        rh.f64(case.tol);
        for g in &case.guess {
            rh.f64(*g);
        }
        let repeats = if case.cfg == Cfg::InBasin { 2 + (rh.finish() % 11) as usize } else { 2 + (rh.finish() % 3) as usize };
        let plan: Vec<PlanStep> = (0..repeats).map(|_| step_of(case, &case.guess, k)).collect();
        // history on the same thread before the object under test is even built: ANOTHER object solves
        // ANOTHER problem (a constant map) from the same guess with the same parameters. Nothing of it
        // may survive (caches keyed by point / closure address / parameters).
        let _guard = NestedGuard;
        // history: ANOTHER object whose user function fails (panics) part-way through a solve, caught by the
        // caller; nothing of it may survive either (a lock poisoned, a workspace left half-written)
        if rh.finish() % 7 == 1 {
            let w = if e.cmplx() { 2 } else { 1 };
            let failing = Case { func: Func::Const { c: (0..n * w).map(|i| 2.5 + i as f64).collect() }, faults: vec![], ..case.clone() };
            FORCE_BUDGET.with(|c| c.set(Some(1 + ((rh.finish() >> 8) % 3) as usize)));
            let _ = solve_session(&failing, &[step_of(&failing, &failing.guess, 5)]);
            FORCE_BUDGET.with(|c| c.set(None));
            stats.count("probe.history_other_object_callback_panicked");
        }
        // every callback of this case runs a Newton solve of its own first (see NESTED)
        if rh.finish() % 5 == 2 {
            NESTED.with(|c| c.set(true));
            stats.count("probe.callbacks_run_a_nested_solve");
        }
        let decoy_on = rh.finish() % 3 == 0;
        if decoy_on {
            let w = if e.cmplx() { 2 } else { 1 };
            let decoy = Case { func: Func::Const { c: (0..n * w).map(|i| 1.5 + i as f64).collect() }, faults: vec![], ..case.clone() };
            let d = solve_session(&decoy, &[step_of(&decoy, &decoy.guess, k.min(2))]);
            stats.steps += d.iter().map(|x| (x.f_calls + x.j_calls) as u64).sum::<u64>();
            stats.count("probe.history_other_object_other_problem_same_guess");
        }
        let mut session = solve_session(case, &plan);
        let later: Vec<Solved> = session.split_off(1);
        let s1 = session.pop().unwrap();
        if decoy_on {
            // ... and the object under test must answer exactly like one built on a clean thread would:
            // compared below through the replay / reference-model oracles, and here against a second
            // object built after the decoy (identical by construction unless state leaked selectively)
            let again = solve_once(case, &case.guess, k);
            stats.steps += (again.f_calls + again.j_calls) as u64;
            if !same_result(&s1.result, &again.result) || s1.hist != again.hist {
                return violation(
                    "replay-differs",
                    &format!("{en}:other-object"),
                    format!("{}: two freshly built objects with identical configuration answer {} and {} on the same thread", e.name(), fmt_res(&s1.result), fmt_res(&again.result)),
                );
            }
        }
        let s2 = later[0].clone();
        for s in &later[1..] {
            stats.steps += (s.f_calls + s.j_calls) as u64;
        }
        stats.steps += (s1.f_calls + s1.j_calls + s2.f_calls + s2.j_calls) as u64;
        stats.log.u64(s1.hist);
        stats.log.u64(s1.f_calls as u64);
        if let Ok((ok, x)) = &s1.result {
            stats.log.u64(*ok as u64);
            for v in x {
                stats.log.f64(*v);
            }
        }
        for fi in &s1.fired {
            let f = &case.faults[*fi];
            let kind = match (&f.key, f.value) {
                (Key::Eval(_), 0) => "fault.eval_nan",
                (Key::Eval(_), 3) => "fault.eval_huge",
                (Key::Eval(_), _) => "fault.eval_inf",
                (Key::JacEval(_), _) => "fault.user_jacobian_nonfinite",
                (Key::Region { .. }, 0) => "fault.region_nan",
                (Key::Region { .. }, 3) => "fault.region_huge",
                (Key::Region { .. }, _) => "fault.region_inf",
            };
            stats.count(kind);
            if let Key::Eval(0) = f.key {
                stats.count("probe.fault_on_first_evaluation");
            }
            if let Key::Eval(kk) = f.key {
                if e.system() && !e.has_jac() && kk % (n + 2) >= 2 {
                    stats.count("probe.fault_inside_jacobian_column");
                }
                if kk + 1 == s1.f_calls {
                    stats.count("probe.fault_on_last_evaluation");
                }
            }
        }

        // oracle 1: returns
        let (ok1, x1) = match &s1.result {
            Ok(t) => t.clone(),
            Err(msg) => {
                let m = normalise_panic(msg);
                // an evaluation-index-keyed fault makes the environment impure (the same point answers differently
                // on another call); a solver that notices and refuses loudly has not violated anything
                if index_faults && !m.contains(BUDGET_MARK) {
                    stats.count("outcome.refused_loudly_under_impure_environment");
                    return Ok(());
                }
                if m.contains(BUDGET_MARK) {
                    return violation("unbounded-work", &format!("{en}:unbounded-work"), format!("{}: more than {} evaluations with max_iter={k}", e.name(), budget_for(case, k)));
                }
                let text = m.splitn(3, ':').nth(2).unwrap_or(&m).trim().to_string();
                return violation("panic", &format!("{en}:panic:{text}"), format!("{} panicked (max_iter={k}, n={n}, func={:?}, faults={:?}): {m}", e.name(), case.func, case.faults));
            }
        };
        stats.count(if ok1 { "outcome.ok" } else { "outcome.err" });
        stats.count(&format!("probe.{}_{}", en, if ok1 { "ok_reached" } else { "err_reached" }));
        if x1.iter().any(|v| v.is_nan()) {
            stats.count("probe.nan_propagated_to_result");
        }

        // oracle 2: bounded work. The property promises "a bounded number of function evaluations" within "at
        // most the configured number of iterations" without naming the constant, so the bound is generous:
        // twice the per-iteration cost E of the documented scheme (3 scalar; n+2 finite-difference systems;
        // 1 function + 1 user-Jacobian call) plus two evaluations outside the loop. Runaway schemes are two
        // orders of magnitude above it; an off-by-one in the iteration count is the business of oracles 3/6.
        let (fmax, jmax) = if !e.system() {
            (6 * k + 2, 0)
        } else if e.has_jac() {
            (2 * k + 2, 2 * k + 1)
        } else {
            (2 * (n + 2) * k + 2, 0)
        };
        if k == 0 {
            // no iteration may run: the payload is the guess, bit for bit; at most one evaluation (a residual
            // check of the guess) is tolerated, and success may only be claimed for a guess that is a root
            if s1.f_calls > 1 || s1.j_calls != 0 {
                return violation("work-bound", &format!("{en}:work-bound"), format!("{}: max_iter=0 yet the function was evaluated {} time(s) (Jacobian {})", e.name(), s1.f_calls, s1.j_calls));
            }
            let root_guess = dist_to_root(case, &case.guess).map(|d| d <= 2.0 * case.tol).unwrap_or(false);
            if !same_bits(&x1, &case.guess) || (ok1 && !(root_guess && !faulted)) {
                return violation("zero-budget", &format!("{en}:zero-budget"), format!("{}: max_iter=0 must report failure carrying the guess {:?}; got {}", e.name(), case.guess, fmt_res(&s1.result)));
            }
        }
        if s1.f_calls > fmax || s1.j_calls > jmax {
            return violation(
                "work-bound",
                &format!("{en}:work-bound"),
                format!("{}: max_iter={k}, n={n}: {} function and {} Jacobian evaluations; more than {fmax} and {jmax}, i.e. over twice what {k} iterations of the scheme cost", e.name(), s1.f_calls, s1.j_calls),
            );
        }

        // oracle 5: configuration untouched, repeated call identical (result and evaluation history)
        if !s1.params_intact || !s2.params_intact {
            return violation("state-mutated", &format!("{en}:state"), format!("{}: parameters() changed across solve (or do not equal what was configured)", e.name()));
        }
        for (idx, s) in later.iter().enumerate() {
            if !s.params_intact {
                return violation("state-mutated", &format!("{en}:state"), format!("{}: parameters() changed across solve (call {})", e.name(), idx + 2));
            }
            if !same_result(&s1.result, &s.result) || s1.hist != s.hist || s1.f_calls != s.f_calls || s1.j_calls != s.j_calls {
                return violation(
                    "replay-differs",
                    &format!("{en}:replay"),
                    format!("{}: call 1 and call {} on the same object (script rewound) differ: {} ({} evals) vs {} ({} evals)", e.name(), idx + 2, fmt_res(&s1.result), s1.f_calls, fmt_res(&s.result), s.f_calls),
                );
            }
        }
        stats.add("repeat_calls_on_same_object", later.len() as u64);

        // ---- config A: must succeed, near the root
        let scale = scale_of(case);
        if case.cfg == Cfg::InBasin {
            let d = dist_to_root(case, &x1).unwrap_or(f64::NAN);
            let factor = if e.system() { 2.0 / diag_margin(case, if e.cmplx() { 1.6 } else { 1.0 }).max(1e-3) } else { 2.0 };
            let bound = factor * case.tol / row_scale_min(case) * 1.01 + 1e-12 * scale;
            if !ok1 {
                return violation("no-convergence", &format!("{en}:in-basin-failed"), format!("{}: guess inside the basin of quadratic convergence, max_iter={k}, tol={:e}: reported failure {} (distance to root {:e}) func={:?}", e.name(), case.tol, fmt_res(&s1.result), d, case.func));
            }
            if !(d <= bound) {
                return violation("far-from-root", &format!("{en}:ok-far-from-root"), format!("{}: Ok({x1:?}) but distance to the root is {d:e} > {bound:e} (tol={:e}) func={:?}", e.name(), case.tol, case.func));
            }
            stats.count("probe.in_basin_converged");
        }

        // ---- config B: Ok implies near a root
        if case.cfg == Cfg::Anywhere && ok1 {
            if let Some(d) = dist_to_root(case, &x1) {
                let bound = if let Func::SqPlus1 = case.func {
                    // |z^2+1| <= tol (systems) or |dx| <= tol (scalar): within tol of +-i, generously 5 tol
                    5.0 * case.tol + 1e-10
                } else if e.system() {
                    2.0 * case.tol / row_scale_min(case) / diag_margin(case, if e.cmplx() { 1.0 } else { 1.0 }).max(1e-3) * 1.05 + 1e-10 * scale
                } else {
                    let deg = if let Func::Poly { roots, .. } = &case.func { if e.cmplx() { roots.len() / 2 } else { roots.len() } } else { 1 };
                    (2 * deg + 1) as f64 * case.tol + 1e-10 * scale
                };
                if !(d <= bound) {
                    return violation("far-from-root", &format!("{en}:ok-far-from-root"), format!("{}: Ok({x1:?}) from guess {:?} but distance to the nearest root is {d:e} > {bound:e} (tol={:e}) func={:?}", e.name(), case.guess, case.tol, case.func));
                }
                stats.count("probe.anywhere_ok_checked");
            }
        }

        // ---- oracle 4: root-free / criterion-never-met scripts never answer Ok
        if !faulted && never_ok(case) && ok1 {
            return violation("spurious-ok", &format!("{en}:spurious-ok"), format!("{}: Ok({x1:?}) on {:?}, whose stopping criterion cannot be met with tol={:e}", e.name(), case.func, case.tol));
        }
        if !faulted && never_ok(case) {
            stats.count("probe.root_free_checked");
        }

        // ---- oracle 5b: an object that has already solved, then given another delta / tolerance through
        // its setters, answers exactly like a freshly built object with that configuration
        {
            let delta2 = if case.delta > 2e-8 { 1e-8 } else { 1e-6 };
            let tol2 = (case.tol * 100.0).min(1e-3);
            let mut sess = solve_session(case, &[step_of(case, &case.guess, k), (case.guess.clone(), k, delta2, tol2)]);
            let reconf = sess.pop().unwrap();
            let fresh = solve_session(case, &[(case.guess.clone(), k, delta2, tol2)]).pop().unwrap();
            stats.steps += (reconf.f_calls + reconf.j_calls + fresh.f_calls + fresh.j_calls) as u64;
            if !reconf.params_intact || !same_result(&reconf.result, &fresh.result) || reconf.hist != fresh.hist {
                return violation(
                    "replay-differs",
                    &format!("{en}:reconfigure"),
                    format!("{}: after solve(), delta({delta2:e}) and tolerance({tol2:e}), solve() answers {} ({} evals); a fresh object with that configuration answers {} ({} evals)", e.name(), fmt_res(&reconf.result), reconf.f_calls, fmt_res(&fresh.result), fresh.f_calls),
                );
            }
            stats.count("probe.reconfigured_object_checked");
        }

        // ---- oracle 3: failure carries the last iterate (restart composition)
        // (only from a finite payload: the property says "at most" the configured iterations, so a solver may
        // stop early once an iterate is non-finite — continuing from inf/NaN then proves nothing)
        if !index_faults && !ok1 && k <= 50 && x1.iter().all(|v| v.is_finite()) {
            // one object, reconfigured through its setters between the calls ...
            let mut sess = solve_session(case, &[step_of(case, &case.guess, k), step_of(case, &x1, 1), step_of(case, &case.guess, k + 1)]);
            let longer = sess.pop().unwrap();
            let cont = sess.pop().unwrap();
            // ... must behave like freshly constructed objects
            let cont_fresh = solve_once(case, &x1, 1);
            stats.steps += (cont.f_calls + cont.j_calls + longer.f_calls + longer.j_calls + cont_fresh.f_calls + cont_fresh.j_calls) as u64;
            if !same_result(&cont.result, &cont_fresh.result) || cont.hist != cont_fresh.hist {
                return violation(
                    "replay-differs",
                    &format!("{en}:reuse"),
                    format!("{}: an object that already ran solve(budget {k}) and was then given guess {x1:?} and budget 1 answers {}, a fresh object with the same configuration answers {}", e.name(), fmt_res(&cont.result), fmt_res(&cont_fresh.result)),
                );
            }
            if cont.result.is_ok() && longer.result.is_ok() && !same_result(&cont.result, &longer.result) {
                return violation(
                    "stale-iterate",
                    &format!("{en}:restart-composition"),
                    format!(
                        "{}: budget {k} answered {}; continuing from that point with budget 1 gives {}, but budget {} from the original guess gives {} — the failure payload is not the last iterate",
                        e.name(),
                        fmt_res(&s1.result),
                        fmt_res(&cont.result),
                        k + 1,
                        fmt_res(&longer.result)
                    ),
                );
            }
            stats.count("probe.restart_composition_checked");
        }

        // ---- oracle 3b: one iteration from the guess is one Newton step (reference model)
        if !faulted && smooth(&case.func) && k >= 1 {
            if let Some((want, step, scheme_rel)) = ref_step(case, &case.guess) {
                let one = solve_once(case, &case.guess, 1);
                stats.steps += (one.f_calls + one.j_calls) as u64;
                if let Ok((_, got)) = &one.result {
                    let err = got.iter().zip(want.iter()).map(|(a, b)| (a - b).abs()).fold(0.0f64, f64::max);
                    // 1e-4 covers rounding noise under the conditioning guard; the truncation error of the scheme's own
                    // difference quotients (forward: O(delta), central: O(delta^2)) is measured on the analytic Jacobian, times 4
                    let tolr = 1e-4 + 4.0 * scheme_rel;
                    let bound = tolr * step + 1e-9 * scale;
                    if !(err <= bound) {
                        return violation(
                            "not-a-newton-step",
                            &format!("{en}:one-step"),
                            format!("{}: with max_iter=1 from {:?} the answer is {}, but the Newton step lands at {want:?} (|diff|={err:e} > {bound:e}, step size {step:e}) func={:?}", e.name(), case.guess, fmt_res(&one.result), case.func),
                        );
                    }
                    stats.count("probe.one_step_checked");
                }
            }
        }
        Ok(())
    }

    fn shrink(&self, case: &Case) -> Vec<Case> {
        let mut out = vec![];
        if !case.faults.is_empty() {
            let mut c = case.clone();
            c.faults.clear();
            out.push(c);
            if case.faults.len() > 1 {
                for i in 0..case.faults.len() {
                    let mut c = case.clone();
                    c.faults.remove(i);
                    out.push(c);
                }
            }
        }
        for mi in [0, 1, 2, case.max_iter / 2, case.max_iter.saturating_sub(1)] {
            if mi < case.max_iter && (case.cfg != Cfg::InBasin || mi >= 15) {
                let mut c = case.clone();
                c.max_iter = mi;
                out.push(c);
            }
        }
        if case.cfg == Cfg::Hostile {
            // simpler guess
            let simple: Vec<f64> = case.guess.iter().map(|g| g.round()).collect();
            if simple != case.guess {
                let mut c = case.clone();
                c.guess = simple;
                out.push(c);
            }
            if case.entry.system() && case.n > 1 {
                if let Some(c) = shrink_dim(case) {
                    out.push(c);
                }
            }
        }
        if case.tol != 1e-8 {
            let mut c = case.clone();
            c.tol = 1e-8;
            out.push(c);
        }
        out
    }

    fn to_json(&self, case: &Case) -> Value {
        let func = match &case.func {
            Func::Poly { roots, scale } => json!({"type":"poly","roots_bits":f64s_hex(roots),"scale_bits":f64_hex(*scale),"roots":roots,"scale":scale}),
            Func::ExpMinus { c } => json!({"type":"exp_minus","c_bits":f64_hex(*c),"c":c}),
            Func::SinMinus { c, shift } => json!({"type":"sin_minus","c_bits":f64_hex(*c),"shift_bits":f64_hex(*shift)}),
            Func::DiagDom { a, b, eps, g, c, root, perm, signs } => json!({"type":"diag_dominant","a_bits":f64s_hex(a),"b_bits":f64s_hex(b),"eps_bits":f64_hex(*eps),
                "g": match g { G::Sin=>"sin", G::Tanh=>"tanh", G::Atan=>"atan", G::Lin=>"lin" }, "c_bits":f64s_hex(c),"root_bits":f64s_hex(root),"root":root,"row_permutation":perm,"row_signs":signs}),
            Func::SqPlus1 => json!({"type":"x^2+1"}),
            Func::Exp => json!({"type":"exp"}),
            Func::AbsPlus1 => json!({"type":"|x|+1"}),
            Func::SignSqrt => json!({"type":"sign(x)sqrt|x|"}),
            Func::Const { c } => json!({"type":"const","c_bits":f64s_hex(c),"c":c}),
        };
        json!({
            "entry": case.entry.short(), "entry_point": case.entry.name(),
            "config": match case.cfg { Cfg::InBasin=>"in_basin", Cfg::Anywhere=>"anywhere", Cfg::Hostile=>"hostile" },
            "n": case.n, "tol_bits": f64_hex(case.tol), "tol": case.tol, "delta_bits": f64_hex(case.delta), "delta": case.delta,
            "max_iter": case.max_iter, "guess_bits": f64s_hex(&case.guess), "guess": case.guess,
            "function": func,
            "faults": case.faults.iter().map(|f| json!({
                "key": match &f.key {
                    Key::Eval(k) => json!({"evaluation": k}),
                    Key::JacEval(k) => json!({"jacobian_evaluation": k}),
                    Key::Region{center,radius} => json!({"region_center_bits": f64s_hex(center), "radius_bits": f64_hex(*radius), "radius": radius}),
                },
                "component": f.comp,
                "value": match f.value { 0=>"NaN", 1=>"+Inf", 2=>"-Inf", _=>"1e300" },
            })).collect::<Vec<_>>(),
        })
    }

    fn from_json(&self, v: &Value) -> Case {
        let f = &v["function"];
        let func = match f["type"].as_str().unwrap_or("") {
            "poly" => Func::Poly { roots: hex_f64s(&f["roots_bits"]), scale: hex_f64(&f["scale_bits"]) },
            "exp_minus" => Func::ExpMinus { c: hex_f64(&f["c_bits"]) },
            "sin_minus" => Func::SinMinus { c: hex_f64(&f["c_bits"]), shift: hex_f64(&f["shift_bits"]) },
            "diag_dominant" => Func::DiagDom {
                a: hex_f64s(&f["a_bits"]),
                b: hex_f64s(&f["b_bits"]),
                eps: hex_f64(&f["eps_bits"]),
                g: match f["g"].as_str().unwrap_or("lin") { "sin" => G::Sin, "tanh" => G::Tanh, "atan" => G::Atan, _ => G::Lin },
                c: hex_f64s(&f["c_bits"]),
                root: hex_f64s(&f["root_bits"]),
                perm: f["row_permutation"].as_array().map(|a| a.iter().map(usize_of).collect()).unwrap_or_default(),
                signs: f["row_signs"].as_array().map(|a| a.iter().map(|x| x.as_f64().unwrap_or(1.0)).collect()).unwrap_or_default(),
            },
            "x^2+1" => Func::SqPlus1,
            "exp" => Func::Exp,
            "|x|+1" => Func::AbsPlus1,
            "sign(x)sqrt|x|" => Func::SignSqrt,
            _ => Func::Const { c: hex_f64s(&f["c_bits"]) },
        };
        Case {
            entry: Entry::from_short(v["entry"].as_str().unwrap()),
            cfg: match v["config"].as_str().unwrap_or("hostile") { "in_basin" => Cfg::InBasin, "anywhere" => Cfg::Anywhere, _ => Cfg::Hostile },
            n: usize_of(&v["n"]),
            tol: hex_f64(&v["tol_bits"]),
            delta: hex_f64(&v["delta_bits"]),
            max_iter: usize_of(&v["max_iter"]),
            guess: hex_f64s(&v["guess_bits"]),
            func,
            faults: v["faults"].as_array().map(|a| a.iter().map(|x| {
                let k = &x["key"];
                let key = if let Some(e) = k.get("evaluation") { Key::Eval(usize_of(e)) }
                    else if let Some(e) = k.get("jacobian_evaluation") { Key::JacEval(usize_of(e)) }
                    else { Key::Region { center: hex_f64s(&k["region_center_bits"]), radius: hex_f64(&k["radius_bits"]) } };
                Fault { key, comp: usize_of(&x["component"]), value: match x["value"].as_str().unwrap_or("NaN") { "NaN"=>0, "+Inf"=>1, "-Inf"=>2, _=>3 } }
            }).collect()).unwrap_or_default(),
        }
    }

    fn describe(&self) -> Describe {
        Describe {
            rule: "one case = (entry point among the six solve/solve_jacobian methods, configuration, dimension, tol, delta, max_iter, guess, scripted function, fault list). Entry points and configurations are cycled by run index (1/5 in-basin, 1/5 anywhere, 3/5 hostile); everything else is drawn. The scripted function is the simulated peer: polynomials with separated roots in product form, exp/sin equations, strictly diagonally dominant nonlinear systems (dimension 1..6, 8 in a few thorough runs; 40% with equations shuffled and negated, 25% scaled down by powers of two overall or equation by equation), root-free / non-differentiable / constant scripts, with NaN/+-Inf/1e300 injected at a chosen evaluation index, at a chosen user-Jacobian evaluation, or everywhere inside a chosen region. Each case calls the real solver 2..5 times (replay, restart composition, one-step). Distinct = hash of every field of the case; all cases are non-trivial.".into(),
            assumptions: vec![
                "work bound: f evaluations <= 2*E*max_iter + 2 with E = 3 (scalar), n+2 (finite-difference systems), 1 (+ at most 2*max_iter+1 user-Jacobian calls); with max_iter = 0 at most one evaluation and the payload must be the guess. The property names no constant; runaway schemes are caught by the callback's own budget (100*(n+2)*(max_iter+1)) and silent loops by the watchdog".into(),
                "restart composition: Err(x_k) with budget k implies solve(budget 1 from x_k) == solve(budget k+1 from the guess), bit for bit (NaN == NaN): holds for any memoryless iteration whose failure payload is its last iterate; not applied under evaluation-index-keyed faults (the environment is then not a function of x)".into(),
                "one-step: with max_iter = 1 on an un-faulted smooth script the payload is within 1e-4 (1e-3 for delta=1e-6) of the analytic Newton step, skipped when |f'| < 1e-2 |f|".into(),
                "in-basin radius: polynomials |e| <= d/(4 deg); exp/sin by the f''/f' bound; systems by a Newton-Kantorovich radius with safety factor 4 (DESIGN.md 4.3). Configurations A/B are seeded numerical sampling; simulation adds nothing there beyond the shared harness".into(),
                "under injected faults no Ok-versus-Err expectation is imposed".into(),
                "fd 1 of the process is /dev/null while this check runs (Newton<Cmplx>::solve prints every iteration)".into(),
            ],
            real_components: vec!["ohsl::Newton::{new,tolerance,delta,iterations,guess,parameters}, all six solve/solve_jacobian methods".into(), "ohsl::Mat64::jacobian / jacobian_cmplx, Matrix::solve_basic, Vector arithmetic and norm_inf".into()],
            stub_components: vec!["the user function and user Jacobian: scripted, recording, fault-injecting (the simulated peer)".into(), "stdout -> /dev/null".into()],
            fault_kinds: vec!["eval_nan", "eval_inf", "eval_huge", "region_nan", "region_inf", "region_huge", "user_jacobian_nonfinite"],
            step_meaning: "ohsl has no clock; simulated_steps counts callback invocations (function + user-Jacobian evaluations) over all solver calls of a run".into(),
        }
    }

    fn required_probes(&self, _tier: Tier) -> Vec<&'static str> {
        vec![
            "max_iter_zero", "dimension_1", "dimension_6_plus", "nan_propagated_to_result", "fault_on_first_evaluation", "fault_inside_jacobian_column", "fault_on_last_evaluation",
            "in_basin_converged", "anywhere_ok_checked", "reconfigured_object_checked", "root_free_checked", "restart_composition_checked", "one_step_checked",
            "f64_ok_reached", "f64_err_reached", "cmplx_ok_reached", "cmplx_err_reached", "vec_fd_ok_reached", "vec_fd_err_reached", "vec_jac_ok_reached", "vec_jac_err_reached",
            "cvec_fd_ok_reached", "cvec_fd_err_reached", "cvec_jac_ok_reached", "cvec_jac_err_reached",
        ]
    }
}

/// drop the last variable/equation of a hostile system (componentwise scripts only)
fn shrink_dim(case: &Case) -> Option<Case> {
    let w = if case.entry.cmplx() { 2 } else { 1 };
    let n = case.n;
    let func = match &case.func {
        Func::SqPlus1 => Func::SqPlus1,
        Func::AbsPlus1 => Func::AbsPlus1,
        Func::Const { c } => Func::Const { c: c[..(n - 1) * w].to_vec() },
        _ => return None,
    };
    let mut c = case.clone();
    c.n = n - 1;
    c.guess.truncate((n - 1) * w);
    c.func = func;
    for f in &mut c.faults {
        if let Key::Region { center, .. } = &mut f.key {
            center.truncate((n - 1) * w);
        }
    }
    Some(c)
}
