//! Simulator core shared by all properties: per-run statistics and event digests,
//! verdicts, the parallel seeded driver, shrinking, replay files, known findings,
//! evidence.

use crate::rng::{mix, Fnv, Rng};
use serde_json::{json, Map, Value};
use std::collections::{BTreeMap, HashSet};
use std::panic::{self, AssertUnwindSafe};
use std::sync::atomic::{AtomicBool, AtomicU64, Ordering};
use std::sync::Mutex;
use std::time::Instant;

// ------------------------------------------------------------------ output
//
// `Newton::<Cmplx>::solve` println!s on every iteration. For C17 the process points
// fd 1 at /dev/null and the simulator writes its own lines to a saved duplicate.

static OUT_FD: std::sync::atomic::AtomicI32 = std::sync::atomic::AtomicI32::new(1);

pub fn silence_library_stdout() {
    unsafe {
        let saved = libc::dup(1);
        let null = libc::open(b"/dev/null\0".as_ptr() as *const libc::c_char, libc::O_WRONLY);
        if saved >= 0 && null >= 0 {
            libc::dup2(null, 1);
            libc::close(null);
            OUT_FD.store(saved, Ordering::SeqCst);
        }
    }
}

pub fn say_str(s: &str) {
    let fd = OUT_FD.load(Ordering::SeqCst);
    let mut buf = Vec::with_capacity(s.len() + 1);
    buf.extend_from_slice(s.as_bytes());
    buf.push(b'\n');
    let mut off = 0;
    while off < buf.len() {
        let r = unsafe { libc::write(fd, buf[off..].as_ptr() as *const libc::c_void, buf.len() - off) };
        if r <= 0 {
            break;
        }
        off += r as usize;
    }
}

#[macro_export]
macro_rules! say {
    ($($arg:tt)*) => { $crate::core::say_str(&format!($($arg)*)) };
}

// ------------------------------------------------------------------ watchdog
//
// A run that never returns (a loop inside the system under test that makes no call
// through any seam) cannot be detected by counting simulator steps. The only use of a
// real clock in the simulator is this safety net: a run that has been executing for
// SIMCHECK_HANG_SECS (default 120) wall-clock seconds — orders of magnitude above
// the longest legitimate run — is reported as class "no-termination" with its replay
// file and the process exits. It never influences any choice the simulator makes.

pub struct Watch {
    /// 0 = idle, otherwise run index + 1 (or u64::MAX in the main phase)
    tag: AtomicU64,
    start_ms: AtomicU64,
}

impl Watch {
    pub const fn new() -> Self {
        Watch { tag: AtomicU64::new(0), start_ms: AtomicU64::new(0) }
    }
    fn begin(&self, tag: u64) {
        self.start_ms.store(now_ms(), Ordering::SeqCst);
        self.tag.store(tag, Ordering::SeqCst);
    }
    fn end(&self) {
        self.tag.store(0, Ordering::SeqCst);
    }
    fn running(&self) -> Option<(u64, u64)> {
        let t = self.tag.load(Ordering::SeqCst);
        if t != 0 { Some((t, self.start_ms.load(Ordering::SeqCst))) } else { None }
    }
    fn overdue(&self) -> Option<u64> {
        let t = self.tag.load(Ordering::SeqCst);
        if t != 0 && now_ms().saturating_sub(self.start_ms.load(Ordering::SeqCst)) > hang_limit_ms() {
            Some(t)
        } else {
            None
        }
    }
}

fn now_ms() -> u64 {
    static T0: std::sync::OnceLock<Instant> = std::sync::OnceLock::new();
    T0.get_or_init(Instant::now).elapsed().as_millis() as u64
}

fn hang_limit_ms() -> u64 {
    std::env::var("SIMCHECK_HANG_SECS").ok().and_then(|s| s.parse::<u64>().ok()).unwrap_or(120) * 1000
}

/// main-phase (shrinking, confirmation, replay) activity: what is executing right now
static MAIN_WATCH: Watch = Watch::new();
static MAIN_CURRENT: Mutex<Option<(Value, bool)>> = Mutex::new(None); // (replay document, replay_mode)

// ------------------------------------------------------------------ tiers

#[derive(Clone, Copy, Debug, PartialEq, Eq)]
pub enum Tier {
    Quick,
    Thorough,
}

impl Tier {
    pub fn name(self) -> &'static str {
        match self {
            Tier::Quick => "quick",
            Tier::Thorough => "thorough",
        }
    }
}

// ------------------------------------------------------------------ stats

/// Everything one run (or a whole batch, after merging) measured.
#[derive(Default)]
pub struct Stats {
    /// fault kinds that actually fired, probes hit, outcome tallies
    pub counters: BTreeMap<String, u64>,
    /// named sets of 64-bit hashes (distinct cases, interleavings, ...)
    pub distinct: BTreeMap<String, HashSet<u64>>,
    /// logical simulator steps (scheduler decisions, fs calls, callback invocations)
    pub steps: u64,
    /// digest of this run's event log (determinism check)
    pub log: Fnv,
}

impl Stats {
    pub fn new() -> Self {
        Self::default()
    }
    #[inline]
    pub fn count(&mut self, name: &str) {
        self.add(name, 1);
    }
    #[inline]
    pub fn add(&mut self, name: &str, n: u64) {
        if let Some(c) = self.counters.get_mut(name) {
            *c += n;
        } else {
            self.counters.insert(name.to_string(), n);
        }
    }
    #[inline]
    pub fn seen(&mut self, set: &str, h: u64) {
        if let Some(s) = self.distinct.get_mut(set) {
            s.insert(h);
        } else {
            let mut s = HashSet::new();
            s.insert(h);
            self.distinct.insert(set.to_string(), s);
        }
    }
    pub fn merge(&mut self, other: Stats) {
        for (k, v) in other.counters {
            *self.counters.entry(k).or_insert(0) += v;
        }
        for (k, v) in other.distinct {
            self.distinct.entry(k).or_default().extend(v);
        }
        self.steps += other.steps;
    }
    pub fn get(&self, name: &str) -> u64 {
        self.counters.get(name).copied().unwrap_or(0)
    }
    pub fn n_distinct(&self, set: &str) -> u64 {
        self.distinct.get(set).map(|s| s.len() as u64).unwrap_or(0)
    }
}

// ------------------------------------------------------------------ verdicts

#[derive(Clone, Debug)]
pub struct Violation {
    /// short stable class, preserved by shrinking (e.g. "value-mismatch")
    pub class: String,
    /// key matched against known_findings.json (call site / input class)
    pub key: String,
    /// human-readable detail
    pub detail: String,
}

pub type Verdict = Result<(), Violation>;

pub fn violation(class: &str, key: &str, detail: String) -> Verdict {
    Err(Violation {
        class: class.to_string(),
        key: key.to_string(),
        detail,
    })
}

// ------------------------------------------------------------------ panic capture

thread_local! {
    static LAST_PANIC: std::cell::RefCell<Option<String>> = const { std::cell::RefCell::new(None) };
}
static LOUD: AtomicBool = AtomicBool::new(false);

/// Install a process-wide hook that records "<file>:<line>: <message>" in a
/// thread-local instead of printing. Must be called after shuttle's one-time hook
/// installation (see sched::prime_shuttle) so that ours is outermost.
pub fn install_quiet_panic_hook() {
    panic::set_hook(Box::new(|info| {
        let msg = if let Some(s) = info.payload().downcast_ref::<&str>() {
            (*s).to_string()
        } else if let Some(s) = info.payload().downcast_ref::<String>() {
            s.clone()
        } else {
            "<non-string panic payload>".to_string()
        };
        let loc = info
            .location()
            .map(|l| format!("{}:{}", l.file(), l.line()))
            .unwrap_or_else(|| "?".into());
        if LOUD.load(Ordering::Relaxed) {
            eprintln!("[panic] {loc}: {msg}");
        }
        LAST_PANIC.with(|p| *p.borrow_mut() = Some(format!("{loc}: {msg}")));
    }));
}

pub fn set_loud(b: bool) {
    LOUD.store(b, Ordering::Relaxed);
}

/// Run `f`, catching a panic; returns Err("<loc>: <msg>") on unwind.
pub fn catch<R>(f: impl FnOnce() -> R) -> Result<R, String> {
    LAST_PANIC.with(|p| *p.borrow_mut() = None);
    match panic::catch_unwind(AssertUnwindSafe(f)) {
        Ok(r) => Ok(r),
        Err(payload) => {
            let from_hook = LAST_PANIC.with(|p| p.borrow_mut().take());
            Err(from_hook.unwrap_or_else(|| {
                if let Some(s) = payload.downcast_ref::<&str>() {
                    (*s).to_string()
                } else if let Some(s) = payload.downcast_ref::<String>() {
                    s.clone()
                } else {
                    "<panic>".to_string()
                }
            }))
        }
    }
}

/// Strip the repository prefix from a panic location so that keys are stable across
/// scratch copies ("/tmp/x/src/a.rs:7: m" -> "src/a.rs:7: m").
pub fn normalise_panic(msg: &str) -> String {
    if let Some(i) = msg.find("/src/") {
        // keep from "src/"
        let head = &msg[..i];
        if !head.contains(' ') {
            return msg[i + 1..].to_string();
        }
    }
    msg.to_string()
}

// ------------------------------------------------------------------ hex helpers for replay files

pub fn f64_hex(x: f64) -> Value {
    Value::String(format!("{:016x}", x.to_bits()))
}
pub fn hex_f64(v: &Value) -> f64 {
    match v {
        Value::String(s) => f64::from_bits(u64::from_str_radix(s, 16).expect("bad hex f64")),
        Value::Number(n) => n.as_f64().unwrap(),
        _ => panic!("bad f64 in replay"),
    }
}
pub fn f64s_hex(xs: &[f64]) -> Value {
    Value::Array(xs.iter().map(|x| f64_hex(*x)).collect())
}
pub fn hex_f64s(v: &Value) -> Vec<f64> {
    v.as_array().expect("array").iter().map(hex_f64).collect()
}
pub fn u64_of(v: &Value) -> u64 {
    match v {
        Value::Number(n) => n.as_u64().expect("u64"),
        Value::String(s) => s.parse().expect("u64 string"),
        _ => panic!("bad u64 in replay"),
    }
}
pub fn usize_of(v: &Value) -> usize {
    u64_of(v) as usize
}
/// u64 values above 2^53 are stored as decimal strings (JSON numbers are doubles for
/// most readers).
pub fn u64_json(x: u64) -> Value {
    if x < (1u64 << 53) {
        json!(x)
    } else {
        Value::String(x.to_string())
    }
}

// ------------------------------------------------------------------ the property interface

pub trait Prop: Sync {
    type Case: Clone + Send + Sync;

    fn id(&self) -> &'static str;
    /// numeric tag mixed into per-run seeds
    fn tag(&self) -> u64;
    fn runs(&self, tier: Tier) -> u64;
    /// Build run number `run` from its private PRNG stream.
    fn generate(&self, rng: &mut Rng, tier: Tier, run: u64) -> Self::Case;
    /// Execute one run deterministically; record what happened in `stats`.
    fn execute(&self, case: &Self::Case, stats: &mut Stats) -> Verdict;
    /// Strictly "smaller" variants of a failing case, most aggressive first.
    fn shrink(&self, case: &Self::Case) -> Vec<Self::Case>;
    /// After a failing execution: make every decision of the run explicit in the
    /// case (e.g. replace a seeded scheduler by the schedule it produced).
    fn pin(&self, case: &Self::Case) -> Self::Case {
        case.clone()
    }
    fn to_json(&self, case: &Self::Case) -> Value;
    fn from_json(&self, v: &Value) -> Self::Case;
    /// Evidence fields specific to the property (rule text, assumptions, stubs).
    fn describe(&self) -> Describe;
    /// Execute every run on a fresh OS thread (isolates thread-local state of the
    /// system under test between runs). Off only where the property's own runtime
    /// (the shuttle server thread) must persist for speed.
    /// A case that hangs may hang because of the *harness*: a simulated second caller runs as a coroutine on
    /// the caller's OS thread, so a real (non-seam) lock taken by the code under test blocks that thread for
    /// ever, where two real threads would simply take turns. If the case uses such a feature, return it
    /// without the feature (and the environment variable that switches the feature off for a whole pass).
    fn hang_variant(&self, _case: &Self::Case) -> Option<(Self::Case, &'static str)> {
        None
    }

    fn isolate_runs(&self) -> bool {
        true
    }
    /// Relative cost of executing a case once (shrinking works within a budget of cost units, so that
    /// minimising a case with millions of elements stays bounded — deterministically, not by a clock).
    fn cost(&self, _case: &Self::Case) -> u64 {
        1
    }
    /// Which distinct-set is the "distinct non-trivial cases" measure.
    fn nontrivial_set(&self) -> &'static str {
        "nontrivial_cases"
    }
    /// Probes that must be non-zero in the given tier for the run to count as
    /// having had reach (checked by selftest, reported in evidence).
    fn required_probes(&self, _tier: Tier) -> Vec<&'static str> {
        vec![]
    }
}

pub struct Describe {
    pub rule: String,
    pub assumptions: Vec<String>,
    pub real_components: Vec<String>,
    pub stub_components: Vec<String>,
    pub fault_kinds: Vec<&'static str>,
    pub step_meaning: String,
}

// ------------------------------------------------------------------ known findings

pub struct KnownFindings {
    /// (property, key-substring, description)
    pub open: Vec<(String, String, String)>,
}

impl KnownFindings {
    pub fn load(path: &str) -> Self {
        let mut open = vec![];
        if let Ok(text) = std::fs::read_to_string(path) {
            if let Ok(v) = serde_json::from_str::<Value>(&text) {
                if let Some(arr) = v.get("open").and_then(|o| o.as_array()) {
                    for e in arr {
                        let p = e.get("property").and_then(|x| x.as_str()).unwrap_or("");
                        let k = e.get("key").and_then(|x| x.as_str()).unwrap_or("");
                        let w = e.get("what").and_then(|x| x.as_str()).unwrap_or("");
                        if !p.is_empty() && !k.is_empty() {
                            open.push((p.to_string(), k.to_string(), w.to_string()));
                        }
                    }
                }
            }
        }
        KnownFindings { open }
    }
    pub fn matches(&self, prop: &str, key: &str) -> Option<&str> {
        self.open
            .iter()
            .find(|(p, k, _)| p == prop && key == k)
            .map(|(_, _, w)| w.as_str())
    }
}

// ------------------------------------------------------------------ driver

pub struct Options {
    pub seed: u64,
    pub tier: Tier,
    pub threads: usize,
    pub verif_dir: String,
    pub runs_override: Option<u64>,
    pub dump_hashes: Option<String>,
    pub write_evidence: bool,
    pub max_seconds: Option<f64>,
}

pub struct BatchResult {
    pub stats: Stats,
    pub runs: u64,
    pub digest: u64,
    pub wall_s: f64,
    pub violations: u64,
    pub known: u64,
    pub exit_code: i32,
}

struct Found<C> {
    run: u64,
    chunk_lo: u64,
    case: C,
    v: Violation,
}

/// Execute with a backstop: a panic escaping the property's own harness is a
/// harness error for that run, reported as class "harness-panic".
fn exec_plain<P: Prop>(p: &P, case: &P::Case, stats: &mut Stats) -> Verdict {
    match catch(|| p.execute(case, stats)) {
        Ok(v) => v,
        Err(msg) => violation("harness-panic", "harness", format!("escaped panic: {msg}")),
    }
}

/// Execute a sequence of cases, in order, on ONE fresh OS thread (clean thread-local
/// state in the system under test) and return the verdict of the last one. With a
/// single case this is "one case = one repeatable execution"; with several it is a
/// history of runs whose earlier members only matter through state they leave behind.
fn exec_sequence<P: Prop>(p: &P, cases: &[P::Case], stats: &mut Stats) -> Verdict {
    if !p.isolate_runs() {
        let mut last = Ok(());
        for (i, c) in cases.iter().enumerate() {
            if i + 1 == cases.len() {
                last = exec_plain(p, c, stats);
            } else {
                let mut scratch = Stats::new();
                let _ = exec_plain(p, c, &mut scratch);
            }
        }
        return last;
    }
    std::thread::scope(|s| {
        std::thread::Builder::new()
            .stack_size(4 << 20)
            .spawn_scoped(s, || {
                let mut last = Ok(());
                for (i, c) in cases.iter().enumerate() {
                    if i + 1 == cases.len() {
                        last = exec_plain(p, c, stats);
                    } else {
                        let mut scratch = Stats::new();
                        let _ = exec_plain(p, c, &mut scratch);
                    }
                }
                last
            })
            .expect("spawn run thread")
            .join()
            .unwrap_or_else(|_| violation("harness-panic", "harness", "run thread died".to_string()))
    })
}

fn exec_guarded<P: Prop>(p: &P, case: &P::Case, stats: &mut Stats) -> Verdict {
    exec_watched(p, std::slice::from_ref(case), stats)
}

/// exec_sequence in the main phase (shrinking, sequence minimisation, replay): the sequence is
/// published so that the watchdog can turn a hang into a replay file of its own.
fn exec_watched<P: Prop>(p: &P, cases: &[P::Case], stats: &mut Stats) -> Verdict {
    {
        let mut cur = MAIN_CURRENT.lock().unwrap();
        let replay_mode = cur.as_ref().map(|c| c.1).unwrap_or(false);
        let mut doc = json!({
            "property": p.id(),
            "violation": { "class": "no-termination", "key": format!("{}:no-termination", p.id()), "detail": format!("the case did not return within {} s of wall-clock time", hang_limit_ms() / 1000) },
            "note": "a case that never returns; replay: bin/check --replay <this file> (reports REPRODUCED after the same timeout)",
            "case": p.to_json(cases.last().expect("non-empty")),
        });
        if cases.len() > 1 {
            doc["executed_before_on_the_same_thread"] = Value::Array(cases[..cases.len() - 1].iter().map(|c| p.to_json(c)).collect());
        }
        *cur = Some((doc, replay_mode));
    }
    MAIN_WATCH.begin(u64::MAX);
    let v = exec_sequence(p, cases, stats);
    MAIN_WATCH.end();
    v
}

fn exec_watched_replay<P: Prop>(p: &P, cases: &[P::Case], stats: &mut Stats) -> Verdict {
    MAIN_WATCH.begin(u64::MAX);
    let v = exec_sequence(p, cases, stats);
    MAIN_WATCH.end();
    v
}

/// Runs `body` with a watchdog over the main phase. On a hang: in replay mode print
/// REPRODUCED and exit 1; otherwise persist the hanging case, confirm it in a fresh process,
/// print the VIOLATION line and exit 1 (exit 2 if it does not reproduce).
fn with_main_watchdog<R>(id: &str, verif_dir: &str, seed: u64, body: impl FnOnce() -> R) -> R {
    let done = AtomicBool::new(false);
    std::thread::scope(|s| {
        s.spawn(|| {
            while !done.load(Ordering::SeqCst) {
                std::thread::sleep(std::time::Duration::from_millis(100));
                if MAIN_WATCH.overdue().is_some() {
                    let cur = MAIN_CURRENT.lock().unwrap().clone();
                    let (doc, replay_mode) = cur.unwrap_or((json!({}), false));
                    if replay_mode {
                        say!("REPRODUCED class=no-termination key={}:no-termination detail=the case did not return within {} s", id, hang_limit_ms() / 1000);
                        std::process::exit(1);
                    }
                    let dir = format!("{verif_dir}/replays");
                    let _ = std::fs::create_dir_all(&dir);
                    let path = format!("{dir}/{id}-{seed}-hang.json");
                    let _ = std::fs::write(&path, serde_json::to_string_pretty(&doc).unwrap());
                    report_hang(id, &path);
                }
            }
        });
        let r = body();
        done.store(true, Ordering::SeqCst);
        r
    })
}

fn report_hang(id: &str, path: &str) -> ! {
    match confirm_in_fresh_process(path, "no-termination") {
        Ok(()) => {
            say!("  class=no-termination key={id}:no-termination detail=a case did not return within {} s of wall-clock time (no call through any seam, so no step budget could stop it)", hang_limit_ms() / 1000);
            say!("VIOLATION property={id} replay={path}");
            std::process::exit(1);
        }
        Err(e) => {
            say!("HARNESS-ERROR property={id} a run exceeded the wall-clock watchdog but its replay {path} did not: {e}");
            std::process::exit(2);
        }
    }
}

pub fn run_batch<P: Prop>(p: &P, opt: &Options) -> BatchResult {
    let start = Instant::now();
    let total = opt.runs_override.unwrap_or_else(|| p.runs(opt.tier));
    let next = AtomicU64::new(0);
    let stop = AtomicBool::new(false);
    let merged: Mutex<Stats> = Mutex::new(Stats::new());
    let hashes: Mutex<Vec<(u64, u64)>> = Mutex::new(Vec::new());
    let found: Mutex<Vec<Found<P::Case>>> = Mutex::new(Vec::new());
    let samples: Mutex<BTreeMap<u64, Value>> = Mutex::new(BTreeMap::new());
    let chunk: u64 = 64;
    let executed = AtomicU64::new(0);
    let digest_sum = AtomicU64::new(0);
    let known = KnownFindings::load(&format!("{}/known_findings.json", opt.verif_dir));
    let known_hits = AtomicU64::new(0);
    let n_workers = opt.threads.max(1);
    let watch: Vec<Watch> = (0..n_workers).map(|_| Watch::new()).collect();
    let workers_left = AtomicU64::new(n_workers as u64);
    let next_worker = AtomicU64::new(0);

    std::thread::scope(|s| {
        // watchdog over the batch (see the watchdog section above)
        s.spawn(|| {
            while workers_left.load(Ordering::SeqCst) > 0 {
                std::thread::sleep(std::time::Duration::from_millis(100));
                if watch.iter().any(|w| w.overdue().is_some()) {
                    // one stuck run can stall the others behind it (a process-wide lock in the code under
                    // test): give them a moment, then look at everything that has been running for long and
                    // find the run that hangs on its own, in a fresh process
                    std::thread::sleep(std::time::Duration::from_millis(3000));
                    let half = hang_limit_ms() / 2;
                    let mut stuck: Vec<(u64, u64)> = watch.iter().filter_map(|w| w.running()).filter(|(_, t0)| now_ms().saturating_sub(*t0) > half).collect();
                    stuck.sort_by_key(|(_, t0)| *t0);
                    let mut cands: Vec<(u64, P::Case)> = stuck.iter().map(|(tag, _)| { let run = tag - 1; (run, p.generate(&mut Rng::new(mix(opt.seed, p.tag(), run)), opt.tier, run)) }).collect();
                    cands.sort_by_key(|(_, c)| if p.hang_variant(c).is_some() { 0 } else { 1 }); // stable: oldest first within each group
                    let mut last_err = String::new();
                    let mut last_path = String::new();
                    for (run, case) in cands.into_iter().take(4) {
                        let v = Violation {
                            class: "no-termination".into(),
                            key: format!("{}:no-termination", p.id()),
                            detail: format!("run {run} did not return within {} s of wall-clock time", hang_limit_ms() / 1000),
                        };
                        let path = write_replay(p, opt, run, std::slice::from_ref(&case), &v);
                        match confirm_in_fresh_process(&path, "no-termination") {
                            Ok(()) => {
                                if let Some((variant, env)) = p.hang_variant(&case) {
                                    if std::env::var(env).is_err() {
                                        let vpath = format!("{path}.variant.json");
                                        let doc = json!({"property": p.id(), "violation": {"class": "no-termination"}, "case": p.to_json(&variant)});
                                        let _ = std::fs::write(&vpath, serde_json::to_string(&doc).unwrap());
                                        let passes = confirm_once(&vpath, "no-termination").err().map(|e| e.starts_with("exit=0 ")).unwrap_or(false);
                                        let _ = std::fs::remove_file(&vpath);
                                        if passes {
                                            let _ = std::fs::remove_file(&path);
                                            say!("NOTE property={} run {run} blocks for ever only when a second caller is simulated as a coroutine on the caller's OS thread, and returns without it: the code under test waits on something outside the seams (a real lock, say) that two real threads would simply take in turn. That is a limit of this harness, not a violation; the pass is repeated without simulated concurrent callers ({env}=1).", p.id());
                                            let args: Vec<String> = std::env::args().skip(1).collect();
                                            let code = std::env::current_exe().ok().and_then(|exe| std::process::Command::new(exe).args(&args).env(env, "1").status().ok()).and_then(|st| st.code()).unwrap_or(2);
                                            std::process::exit(code);
                                        }
                                    }
                                }
                                say!("  class=no-termination key={}:no-termination detail=a case did not return within {} s of wall-clock time (no call through any seam, so no step budget could stop it)", p.id(), hang_limit_ms() / 1000);
                                say!("VIOLATION property={} replay={path}", p.id());
                                std::process::exit(1);
                            }
                            Err(e) if e.contains("REPRODUCED-DIFFERENT class=") => {
                                // on its own, in a fresh process, the stuck run returns — with a violation of another
                                // class (it was slow or blocked here because of what else was going on in this
                                // process): that violation is what gets reported, under its own class
                                let class = e.split("REPRODUCED-DIFFERENT class=").nth(1).and_then(|r| r.split_whitespace().next()).unwrap_or("").to_string();
                                let key = e.split(" key=").nth(1).and_then(|r| r.split_whitespace().next()).unwrap_or("").to_string();
                                let detail = e.split(" detail=").nth(1).unwrap_or("").trim().to_string();
                                let v2 = Violation { class: class.clone(), key: key.clone(), detail: detail.clone() };
                                let path2 = write_replay(p, opt, run, std::slice::from_ref(&case), &v2);
                                if confirm_in_fresh_process(&path2, &class).is_ok() {
                                    say!("  class={class} key={key} run={run} detail={detail}");
                                    say!("VIOLATION property={} replay={path2}", p.id());
                                    std::process::exit(1);
                                }
                                last_err = e;
                                last_path = path2;
                            }
                            Err(e) => {
                                last_err = e;
                                last_path = path;
                            }
                        }
                    }
                    say!("HARNESS-ERROR property={} a run exceeded the wall-clock watchdog but no stuck run hangs on its own in a fresh process (last tried: {last_path}: {last_err})", p.id());
                    std::process::exit(2);
                }
            }
        });
        for _ in 0..n_workers {
            s.spawn(|| {
                struct Dec<'a>(&'a AtomicU64);
                impl Drop for Dec<'_> {
                    fn drop(&mut self) {
                        self.0.fetch_sub(1, Ordering::SeqCst);
                    }
                }
                let _dec = Dec(&workers_left);
                let my_watch = &watch[next_worker.fetch_add(1, Ordering::SeqCst) as usize];
                let mut local = Stats::new();
                let mut local_hashes: Vec<(u64, u64)> = Vec::new();
                let mut local_digest: u64 = 0;
                loop {
                    if stop.load(Ordering::Relaxed) {
                        break;
                    }
                    if let Some(lim) = opt.max_seconds {
                        if start.elapsed().as_secs_f64() > lim {
                            break;
                        }
                    }
                    let lo = next.fetch_add(chunk, Ordering::Relaxed);
                    if lo >= total {
                        break;
                    }
                    let hi = (lo + chunk).min(total);
                    // one chunk = consecutive runs executed in order; with isolate_runs() on a
                    // fresh OS thread, so whatever thread-local state the system under test keeps
                    // can only flow from an earlier run of the same chunk to a later one —
                    // independent of the worker count, hence replayable as a sequence.
                    let mut do_chunk = || {
                        for run in lo..hi {
                            let mut rng = Rng::new(mix(opt.seed, p.tag(), run));
                            let case = p.generate(&mut rng, opt.tier, run);
                            let mut st = Stats::new();
                            my_watch.begin(run + 1);
                            let verdict = exec_plain(p, &case, &mut st);
                            my_watch.end();
                            let mut h = st.log;
                            h.u64(if verdict.is_ok() { 0 } else { 1 });
                            let hv = h.finish();
                            let mut m = run ^ hv.rotate_left(23);
                            local_digest = local_digest.wrapping_add(crate::rng::splitmix64(&mut m));
                            if opt.dump_hashes.is_some() {
                                local_hashes.push((run, hv));
                            }
                            if run < 3 || (run % (total / 4).max(1) == 0 && run > 0) {
                                samples.lock().unwrap().insert(run, p.to_json(&case));
                            }
                            local.merge(st);
                            executed.fetch_add(1, Ordering::Relaxed);
                            if let Err(v) = verdict {
                                let mut f = found.lock().unwrap();
                                let is_known = known.matches(p.id(), &v.key).is_some();
                                if is_known {
                                    // a listed finding must not stop the search for unlisted ones:
                                    // keep one representative per key, count the rest
                                    known_hits.fetch_add(1, Ordering::Relaxed);
                                    if !f.iter().any(|x| x.v.key == v.key) {
                                        f.push(Found { run, chunk_lo: lo, case, v });
                                    }
                                } else {
                                    f.push(Found { run, chunk_lo: lo, case, v });
                                    let unknown = f.iter().filter(|x| known.matches(p.id(), &x.v.key).is_none()).count();
                                    // keep going: several distinct findings may exist; but cap
                                    if unknown >= 64 {
                                        stop.store(true, Ordering::Relaxed);
                                    }
                                }
                            }
                        }
                    };
                    if p.isolate_runs() {
                        std::thread::scope(|cs| {
                            std::thread::Builder::new().stack_size(4 << 20).spawn_scoped(cs, &mut do_chunk).expect("spawn chunk thread").join().expect("chunk thread died");
                        });
                    } else {
                        do_chunk();
                    }
                }
                merged.lock().unwrap().merge(local);
                hashes.lock().unwrap().extend(local_hashes);
                digest_sum.fetch_add(local_digest, Ordering::Relaxed);
            });
        }
    });

    let mut stats = merged.into_inner().unwrap();
    let mut hashes = hashes.into_inner().unwrap();
    hashes.sort();
    // order-independent digest over (run, per-run event-log hash)
    let digest = digest_sum.load(Ordering::Relaxed);
    if let Some(path) = &opt.dump_hashes {
        let mut out = String::new();
        for (r, h) in &hashes {
            out.push_str(&format!("{r} {h:016x}\n"));
        }
        std::fs::write(path, out).expect("dump hashes");
    }
    let runs = executed.load(Ordering::Relaxed);

    // ---- violations: group by (class, key), smallest run first. The fresh process is the judge:
    // a finding counts only if its replay file fails the same way in a new process.
    let mut found = found.into_inner().unwrap();
    found.sort_by_key(|f| f.run);
    let mut reported: Vec<String> = vec![]; // groups already reported (violation or known finding)
    let mut attempts: BTreeMap<String, (u32, String)> = BTreeMap::new(); // group -> (tries, last failure text)
    let mut n_viol = 0u64;
    let mut n_known = 0u64;
    let mut exit_code = 0;
    with_main_watchdog(p.id(), &opt.verif_dir, opt.seed, || {
        for f in found {
            let group = format!("{}|{}", f.v.class, f.v.key);
            if reported.contains(&group) {
                continue;
            }
            if let Some(what) = known.matches(p.id(), &f.v.key) {
                say!("KNOWN-FINDING: property={} {} [{}]", p.id(), what, f.v.key);
                n_known += 1;
                reported.push(group);
                continue;
            }
            if reported.len() as u64 - n_known >= 4 {
                continue; // report at most four distinct violations in full
            }
            let tries = attempts.entry(group.clone()).or_insert((0, String::new()));
            if tries.0 >= 6 {
                continue;
            }
            tries.0 += 1;

            // candidate 1: the case alone; candidate 2: the prefix of its chunk, in order, on one thread
            let single = vec![f.case.clone()];
            let prefix: Vec<P::Case> = (f.chunk_lo..=f.run).map(|r| p.generate(&mut Rng::new(mix(opt.seed, p.tag(), r)), opt.tier, r)).collect();
            let mut chosen: Option<Vec<P::Case>> = None;
            for cand in [single, prefix] {
                let path = write_replay(p, opt, f.run, &cand, &f.v);
                match confirm_in_fresh_process(&path, &f.v.class) {
                    Ok(()) => {
                        chosen = Some(cand);
                        break;
                    }
                    Err(e) => attempts.get_mut(&group).unwrap().1 = e,
                }
                if cand_len_is_one_chunk(f.chunk_lo, f.run) {
                    break; // the prefix is the case itself
                }
            }
            let Some(base) = chosen else {
                continue; // depends on state outside the case and its chunk: try the next occurrence
            };

            // minimise in this process, then let a fresh process judge the minimised file;
            // if it disagrees (state leaked into this process), keep the unminimised one
            let (small, v) = if base.len() == 1 {
                let (c, v) = shrink_case(p, &base[0], &f.v);
                (vec![c], v)
            } else {
                let mut cases = base.clone();
                let mut i = 0;
                while i + 1 < cases.len() {
                    let mut cand = cases.clone();
                    cand.remove(i);
                    let mut stc = Stats::new();
                    match exec_watched(p, &cand, &mut stc) {
                        Err(ref v3) if v3.class == f.v.class => cases = cand,
                        _ => i += 1,
                    }
                }
                let mut stf = Stats::new();
                let vfinal = exec_watched(p, &cases, &mut stf).err().unwrap_or_else(|| f.v.clone());
                (cases, vfinal)
            };
            let mut path = write_replay(p, opt, f.run, &small, &v);
            let mut v_rep = v;
            if confirm_in_fresh_process(&path, &v_rep.class).is_err() {
                path = write_replay(p, opt, f.run, &base, &f.v);
                v_rep = f.v.clone();
                if confirm_in_fresh_process(&path, &v_rep.class).is_err() {
                    continue;
                }
            }
            say!("  class={} key={} run={} detail={}", v_rep.class, v_rep.key, f.run, v_rep.detail);
            say!("VIOLATION property={} replay={}", p.id(), path);
            n_viol += 1;
            exit_code = 1;
            reported.push(group);
        }
    });
    // Failures that no fresh process reproduces, and nothing else to report: with several worker threads in
    // one process, state that the code under test keeps process-wide (a static lock poisoned by one run, a
    // global counter) makes *other* workers' runs fail — victims, which pass on their own — and the run that
    // caused it may not be among the occurrences tried. One worker thread makes the order of runs, and so
    // the culprit, deterministic: repeat the pass that way before giving up.
    if exit_code == 0 && opt.threads > 1 && attempts.keys().any(|g| !reported.contains(g)) && std::env::var("SIMCHECK_SINGLE_FALLBACK").is_err() {
        say!("NOTE property={} failures inside the batch that no fresh process reproduces (state shared between worker threads of this process?): repeating the pass with one worker thread", p.id());
        let mut args: Vec<String> = std::env::args().skip(1).collect();
        args.push("--threads".into());
        args.push("1".into());
        let code = std::env::current_exe().ok().and_then(|exe| std::process::Command::new(exe).args(&args).env("SIMCHECK_SINGLE_FALLBACK", "1").status().ok()).and_then(|st| st.code()).unwrap_or(2);
        std::process::exit(code);
    }
    for (group, (tries, last)) in &attempts {
        if !reported.contains(group) {
            say!(
                "HARNESS-ERROR property={} {} occurrence(s) of [{}] failed inside the batch, but none of their replay files (the case alone, or the prefix of its chunk on one thread) fails in a fresh process: the outcome depends on state outside the simulator's control (a process-wide static?). last: {}",
                p.id(), tries, group, last
            );
            if exit_code == 0 {
                exit_code = 2;
            }
        }
    }

    let wall_s = start.elapsed().as_secs_f64();
    stats.add("violations_distinct", n_viol);
    stats.add("known_finding_occurrences", known_hits.load(Ordering::Relaxed));
    if opt.write_evidence {
        write_evidence(p, opt, &stats, runs, digest, wall_s, n_viol, n_known, samples.into_inner().unwrap());
    }
    BatchResult {
        stats,
        runs,
        digest,
        wall_s,
        violations: n_viol,
        known: n_known,
        exit_code,
    }
}

fn cand_len_is_one_chunk(lo: u64, run: u64) -> bool {
    lo == run
}

// ------------------------------------------------------------------ shrinking

pub fn shrink_case<P: Prop>(p: &P, case: &P::Case, v: &Violation) -> (P::Case, Violation) {
    let mut best = p.pin(case);
    let mut best_v = v.clone();
    // the pinned case must still fail the same way; otherwise keep the original
    {
        let mut st = Stats::new();
        match exec_guarded(p, &best, &mut st) {
            Err(v2) if v2.class == v.class => best_v = v2,
            _ => {
                best = case.clone();
            }
        }
    }
    let mut budget: u64 = 4000;
    let mut progress = true;
    while progress && budget > 0 {
        progress = false;
        for cand in p.shrink(&best) {
            let c = p.cost(&cand).max(1);
            if budget < c {
                budget = 0;
                break;
            }
            budget -= c;
            let mut st = Stats::new();
            if let Err(v2) = exec_guarded(p, &cand, &mut st) {
                if v2.class == best_v.class {
                    best = p.pin(&cand);
                    // pin may change behaviour only if the harness is broken; verify
                    let mut st2 = Stats::new();
                    match exec_guarded(p, &best, &mut st2) {
                        Err(v3) if v3.class == best_v.class => best_v = v3,
                        _ => {
                            best = cand;
                            best_v = v2;
                        }
                    }
                    progress = true;
                    break;
                }
            }
        }
    }
    (best, best_v)
}

// ------------------------------------------------------------------ replay files

fn write_replay<P: Prop>(p: &P, opt: &Options, run: u64, seq: &[P::Case], v: &Violation) -> String {
    let dir = format!("{}/replays", opt.verif_dir);
    let _ = std::fs::create_dir_all(&dir);
    let path = format!("{}/{}-{}-{}.json", dir, p.id(), opt.seed, run);
    let last = seq.last().expect("non-empty sequence");
    let mut doc = json!({
        "property": p.id(),
        "verif_seed": u64_json(opt.seed),
        "run": run,
        "tier": opt.tier.name(),
        "violation": { "class": v.class, "key": v.key, "detail": v.detail },
        "note": "minimised case; every scheduling decision, fault and datum is explicit. Replay: bin/check --replay <this file>",
        "case": p.to_json(last),
    });
    if let Ok(a) = std::env::var("SIMCHECK_AFFINITY") {
        // the run was made under a restricted CPU affinity (a second configuration of the same check):
        // bin/check --replay re-applies it
        doc["cpu_affinity"] = json!(a);
    }
    if seq.len() > 1 {
        doc["executed_before_on_the_same_thread"] = Value::Array(seq[..seq.len() - 1].iter().map(|c| p.to_json(c)).collect());
        doc["note"] = json!("the case fails only after the cases listed under executed_before_on_the_same_thread have run on the same OS thread (state kept by the system under test between calls); the replay executes them in order on one fresh thread");
    }
    std::fs::write(&path, serde_json::to_string_pretty(&doc).unwrap()).expect("write replay");
    path
}

/// A deterministic case reproduces at the first attempt. Up to three attempts are made because a
/// change to the code under test may bring in nondeterminism the simulator does not own (real
/// threads spawned outside the seams): such a finding is still real when any fresh process shows it.
fn confirm_in_fresh_process(path: &str, class: &str) -> Result<(), String> {
    let mut last = String::new();
    for _attempt in 0..3 {
        match confirm_once(path, class) {
            Ok(()) => return Ok(()),
            Err(e) => last = e,
        }
        if class == "no-termination" {
            break;
        }
    }
    Err(last)
}

fn confirm_once(path: &str, class: &str) -> Result<(), String> {
    let exe = std::env::current_exe().map_err(|e| e.to_string())?;
    let out = std::process::Command::new(exe)
        .arg("replay")
        .arg(path)
        .output()
        .map_err(|e| e.to_string())?;
    let text = String::from_utf8_lossy(&out.stdout).to_string();
    let code = out.status.code().unwrap_or(-1);
    let want = format!("REPRODUCED class={class} ");
    if code == 1 && text.lines().any(|l| l.starts_with(&want)) {
        Ok(())
    } else {
        Err(format!("exit={code} stdout={}", text.trim()))
    }
}

/// `simcheck replay <file>`: exit 1 and print REPRODUCED if the recorded case
/// violates the property (same class), 0 if it passes, 2 on harness trouble.
pub fn replay_file<P: Prop>(p: &P, doc: &Value) -> i32 {
    let mut seq: Vec<P::Case> = doc
        .get("executed_before_on_the_same_thread")
        .and_then(|a| a.as_array())
        .map(|a| a.iter().map(|c| p.from_json(c)).collect())
        .unwrap_or_default();
    seq.push(p.from_json(&doc["case"]));
    let want = doc["violation"]["class"].as_str().unwrap_or("").to_string();
    let mut st = Stats::new();
    *MAIN_CURRENT.lock().unwrap() = Some((json!({}), true));
    let verdict = with_main_watchdog(p.id(), "/tmp", 0, || exec_watched_replay(p, &seq, &mut st));
    match verdict {
        Ok(()) => {
            say!("NOT-REPRODUCED property={} (case passes on this tree)", p.id());
            0
        }
        Err(v) => {
            if want.is_empty() || v.class == want {
                say!("REPRODUCED class={} key={} detail={}", v.class, v.key, v.detail);
                say!("log_digest={:016x}", st.log.finish());
                1
            } else {
                say!(
                    "REPRODUCED-DIFFERENT class={} (recorded {}) key={} detail={}",
                    v.class, want, v.key, v.detail
                );
                1
            }
        }
    }
}

// ------------------------------------------------------------------ evidence

#[allow(clippy::too_many_arguments)]
fn write_evidence<P: Prop>(
    p: &P,
    opt: &Options,
    stats: &Stats,
    runs: u64,
    digest: u64,
    wall_s: f64,
    n_viol: u64,
    n_known: u64,
    samples: BTreeMap<u64, Value>,
) {
    let d = p.describe();
    let mut counters = Map::new();
    for (k, v) in &stats.counters {
        counters.insert(k.clone(), json!(v));
    }
    let mut distinct = Map::new();
    for (k, v) in &stats.distinct {
        distinct.insert(k.clone(), json!(v.len()));
    }
    let mut faults = Map::new();
    for k in &d.fault_kinds {
        faults.insert(k.to_string(), json!(stats.get(&format!("fault.{k}"))));
    }
    let mut probes = Map::new();
    for (k, v) in &stats.counters {
        if let Some(name) = k.strip_prefix("probe.") {
            probes.insert(name.to_string(), json!(v));
        }
    }
    let missing: Vec<&str> = p
        .required_probes(opt.tier)
        .into_iter()
        .filter(|n| stats.get(&format!("probe.{n}")) == 0)
        .collect();
    let sample_list: Vec<Value> = samples
        .into_iter()
        .take(6)
        .map(|(run, c)| json!({"run": run, "case": c}))
        .collect();
    let per_hour = if wall_s > 0.0 { (runs as f64 / wall_s * 3600.0) as u64 } else { 0 };
    let doc = json!({
        "property_id": p.id(),
        "tier": opt.tier.name(),
        "seed": opt.seed,
        "level": "exploration",
        "wall_s": wall_s,
        "violations": n_viol,
        "assumptions": d.assumptions,
        "coverage": {
            "evaluations": runs,
            "distinct_nontrivial": stats.n_distinct(p.nontrivial_set()),
            "rule": d.rule,
            "samples": sample_list,
            "exhaustive": false,
            "technique": "deterministic simulation with fault injection (seeded search over schedules / fault sequences / scripted environments)",
            "simulated_runs": runs,
            "simulated_runs_per_hour": per_hour,
            "seeds": format!("per-run seed = mix(VERIF_SEED={}, property tag, run index), run index 0..{}", opt.seed, runs),
            "simulated_steps": stats.steps,
            "simulated_time_note": d.step_meaning,
            "fault_kinds_fired": faults,
            "probes": probes,
            "required_probes_missing": missing,
            "counters": counters,
            "distinct_measures": distinct,
            "run_log_digest": format!("{digest:016x}"),
            "worker_threads": opt.threads,
            "known_findings_reported": n_known,
            "components_real": d.real_components,
            "components_stubbed": d.stub_components,
        },
    });
    let dir = format!("{}/evidence", opt.verif_dir);
    let _ = std::fs::create_dir_all(&dir);
    let path = format!("{}/{}.json", dir, p.id());
    std::fs::write(&path, serde_json::to_string_pretty(&doc).unwrap()).expect("write evidence");
}
