//! C16 — threaded dot product == sequential one for every length, CPU count and
//! schedule. The real `Vector::<f64>::dot_f64` runs inside a shuttle execution whose
//! scheduler and CPU count the simulator owns.

use crate::core::*;
use crate::rng::{Fnv, Rng};
use crate::sched::{trace_hash, ExecReport, SchedSpec};
use ohsl::verif_seam;
use ohsl::Vector;
use serde_json::{json, Value};
use std::sync::{Arc, Mutex};

#[derive(Clone, Copy, Debug, PartialEq)]
pub enum Kind {
    /// integer-valued entries, every partial sum exact in any order
    Exact,
    /// finite floats of wildly mixed magnitude and sign
    General,
    /// general floats with a few NaN / +Inf / -Inf / zero entries: the threaded product must fall in the
    /// same class (NaN, +Inf, -Inf, finite) as the sequential one — that class does not depend on the
    /// partition or the order of additions
    Special,
}

#[derive(Clone, Debug)]
pub struct Case {
    pub cpus: usize,
    pub kind: Kind,
    /// (seed, generated length) of the data stream v and w were drawn from; huge cases are stored in
    /// replay files as "the first len elements of that stream" instead of millions of literals
    pub data_seed: u64,
    pub gen_len: usize,
    pub v: Vec<f64>,
    pub w: Vec<f64>,
    /// basis probes: dot_f64(v, e_i) must be exactly v[i]
    pub probes: Vec<usize>,
    /// history before the calls under test: a product of two other vectors of this length on the
    /// same thread (0 = none). The routine must not remember anything between calls.
    pub decoy_len: usize,
    /// fault: the CPU count alternates between `cpus` and this value from one consultation to the
    /// next (the affinity changes while the program runs). Code that asks once per call sees a
    /// different — but self-consistent — count per call; code that asks twice within a call does not.
    pub cpu_flip: Option<usize>,
    /// history: before anything else in the execution, a call that fails the documented way (operands of
    /// different length). Whatever that call does, it must not spoil the calls after it.
    pub failed_call_first: bool,
    /// fault: thread creation through `std::thread::Builder` is refused (EAGAIN) from this spawn on
    /// (None = never). The shipped code spawns through `Scope::spawn`, which cannot report failure, so
    /// on it the fault never fires; code that does use `Builder` may refuse loudly (panic) or cope,
    /// but must not return a wrong value.
    pub refuse_spawns_from: Option<usize>,
    /// a second caller: another task of the same execution computes another product (its own
    /// vectors) while the calls under test run; both must be right under every interleaving
    pub concurrent: bool,
    /// after the calls under test, change one element of v IN PLACE (same buffers, same length)
    /// and multiply again: the answer must follow the data
    pub mutate: bool,
    pub scheds: Vec<SchedSpec>,
}

pub struct C16;

const GRID: u64 = 201 * 16;
const NO_CONCURRENT: &str = "SIMCHECK_C16_NO_CONCURRENT";

fn gen_exact(rng: &mut Rng, len: usize) -> (Vec<f64>, Vec<f64>) {
    let mut v = Vec::with_capacity(len);
    let mut w = Vec::with_capacity(len);
    if rng.chance(0.08) {
        // every product is +0.0 or -0.0: the exact sum is +0.0, bit for bit, like the sequential fold from +0.0
        for _ in 0..len {
            let a = rng.range(1, 9) as f64 * if rng.chance(0.7) { -1.0 } else { 1.0 };
            v.push(a);
            w.push(if rng.chance(0.5) { 0.0 } else { -0.0 });
        }
        return (v, w);
    }
    let small = rng.chance(0.3);
    // every partial sum of products (also of v.v and w.w) must stay below 2^52 in any order: len * lim^2 < 2^52
    let cap = ((((1u64 << 52) as f64) / (len.max(1) as f64)).sqrt().floor() as i64).max(1);
    let lim: i64 = if small { 9 } else { (1i64 << 20).min(cap) };
    for _ in 0..len {
        let mut a = rng.range(-lim, lim);
        let mut b = rng.range(-lim, lim);
        if a == 0 {
            a = 1;
        }
        if b == 0 {
            b = -1;
        }
        v.push(a as f64);
        w.push(b as f64);
    }
    (v, w)
}

fn gen_float(rng: &mut Rng) -> f64 {
    let e = rng.range(-60, 60);
    let m = rng.uniform(1.0, 2.0);
    let s = if rng.chance(0.5) { -1.0 } else { 1.0 };
    s * m * (2.0f64).powi(e as i32)
}

fn gen_general(rng: &mut Rng, len: usize) -> (Vec<f64>, Vec<f64>) {
    let mode = rng.below(5);
    let mut v = Vec::with_capacity(len);
    let mut w = Vec::with_capacity(len);
    for i in 0..len {
        match mode {
            0 => {
                v.push(gen_float(rng));
                w.push(gen_float(rng));
            }
            3 => {
                // the same data in wildly different units: exponents over +-480, so products reach 2^+-960
                // (no sum of up to 2^23 of them overflows) — a rescaling "overflow guard" shows here
                v.push(gen_float(rng) * (2.0f64).powi(rng.range(-420, 420) as i32));
                w.push(gen_float(rng) * (2.0f64).powi(rng.range(-420, 420) as i32));
            }
            4 => {
                // everything tiny: products are subnormal or underflow to zero (absolute error 2^-1075 each,
                // covered by the MIN_POSITIVE term of the bound; sums of subnormals are exact)
                v.push(gen_float(rng) * (2.0f64).powi(-480));
                w.push(gen_float(rng) * (2.0f64).powi(-480));
            }
            1 => {
                // same order of magnitude, mixed signs: reassociation shows in the last bits
                v.push(rng.uniform(-1.0, 1.0));
                w.push(rng.uniform(-1.0, 1.0));
            }
            _ => {
                // heavy cancellation: pairs that nearly cancel
                if i % 2 == 0 {
                    v.push(rng.uniform(1.0, 2.0) * 1e8);
                    w.push(rng.uniform(1.0, 2.0));
                } else {
                    let pv: f64 = v[i - 1];
                    let pw: f64 = w[i - 1];
                    v.push(-pv * (1.0 + rng.uniform(-1e-9, 1e-9)));
                    w.push(pw);
                }
            }
        }
    }
    (v, w)
}

fn gen_data(kind: Kind, data_seed: u64, len: usize) -> (Vec<f64>, Vec<f64>) {
    let mut drng = Rng::new(data_seed);
    match kind {
        Kind::Exact => gen_exact(&mut drng, len),
        Kind::General => gen_general(&mut drng, len),
        Kind::Special => {
            let (mut v, mut w) = gen_general(&mut drng, len);
            if len > 0 {
                for _ in 0..drng.urange(1, 3) {
                    let i = drng.usize_below(len);
                    let special = *drng.pick(&[f64::NAN, f64::INFINITY, f64::NEG_INFINITY, 0.0]);
                    if drng.chance(0.5) {
                        v[i] = special;
                    } else {
                        w[i] = special;
                    }
                    if drng.chance(0.3) {
                        // the partner is zero: inf * 0 = NaN
                        let j = drng.usize_below(len);
                        v[j] = 0.0;
                    }
                }
            }
            (v, w)
        }
    }
}

fn gen_probes(rng: &mut Rng, len: usize, cpus: usize, n: usize) -> Vec<usize> {
    let mut p = vec![];
    if len == 0 {
        return p;
    }
    let chunk = len / cpus.max(1);
    let mut cands = vec![0, len - 1];
    if chunk > 0 {
        let k = rng.urange(1, cpus);
        for c in [k * chunk, (k * chunk).saturating_sub(1), (cpus - 1) * chunk, ((cpus - 1) * chunk).saturating_sub(1), cpus * chunk] {
            if c < len {
                cands.push(c);
            }
        }
    }
    for _ in 0..n {
        if rng.chance(0.6) {
            p.push(*rng.pick(&cands));
        } else {
            p.push(rng.usize_below(len));
        }
    }
    p.sort();
    p.dedup();
    p
}

/// Dot2 (Ogita, Rump, Oishi): dot product as if computed in twice the working
/// precision, plus the sum of absolute products.
fn dot2(v: &[f64], w: &[f64]) -> (f64, f64) {
    let mut p = 0.0f64;
    let mut s = 0.0f64;
    let mut abs = 0.0f64;
    for i in 0..v.len() {
        let h = v[i] * w[i];
        let r = v[i].mul_add(w[i], -h);
        let np = p + h;
        let z = np - p;
        let q = (p - (np - z)) + (h - z);
        p = np;
        s += q + r;
        abs += h.abs();
    }
    (p + s, abs)
}

/// all values obtainable by adding the given numbers in any order with any parenthesisation
fn assoc_sums(xs: &[f64]) -> Vec<f64> {
    if xs.len() == 1 {
        return vec![xs[0]];
    }
    let n = xs.len();
    let mut out: Vec<f64> = vec![];
    // split into two non-empty subsets; element 0 always goes left (unordered splits)
    for mask in 0..(1u32 << (n - 1)) {
        let mut left = vec![xs[0]];
        let mut right = vec![];
        for i in 1..n {
            if mask & (1 << (i - 1)) != 0 {
                left.push(xs[i]);
            } else {
                right.push(xs[i]);
            }
        }
        if right.is_empty() {
            continue;
        }
        for a in assoc_sums(&left) {
            for b in assoc_sums(&right) {
                let s = a + b;
                if !out.iter().any(|o| o.to_bits() == s.to_bits()) {
                    out.push(s);
                }
            }
        }
    }
    out
}

/// a case too large to write out literally whose data still are a prefix of their generated stream
fn big_generated(case: &Case) -> bool {
    if case.v.len() <= 50_000 || case.gen_len < case.v.len() {
        return false;
    }
    let (gv, gw) = gen_data(case.kind, case.data_seed, case.gen_len);
    let n = case.v.len();
    gv[..n].iter().zip(case.v.iter()).all(|(a, b)| a.to_bits() == b.to_bits()) && gw[..n].iter().zip(case.w.iter()).all(|(a, b)| a.to_bits() == b.to_bits())
}

fn regenerated(v: &Value) -> Option<(Vec<f64>, Vec<f64>)> {
    let g = v.get("data_generated")?;
    if g.is_null() {
        return None;
    }
    let seed: u64 = g["seed"].as_str()?.parse().ok()?;
    let gen_len = g["generated_len"].as_u64()? as usize;
    let n = g["truncated_to"].as_u64()? as usize;
    let kind = match v["kind"].as_str() { Some("general") => Kind::General, Some("special") => Kind::Special, _ => Kind::Exact };
    let (mut a, mut b) = gen_data(kind, seed, gen_len);
    a.truncate(n);
    b.truncate(n);
    Some((a, b))
}

fn k_idx(outs: &[ExecOut], o: &ExecOut) -> usize {
    outs.iter().position(|x| std::ptr::eq(x, o)).unwrap_or(0)
}

fn exact_i128(v: &[f64], w: &[f64]) -> i128 {
    let mut s: i128 = 0;
    for i in 0..v.len() {
        s += (v[i] as i128) * (w[i] as i128);
    }
    s
}

/// the in-place change applied to v[len/2]: stays integer-valued for exact data
fn mutated_value(x: f64) -> f64 {
    if x.fract() == 0.0 {
        x + 3.0
    } else {
        -0.5 * x
    }
}

#[inline]
fn canon(x: f64) -> u64 {
    // bit-identical means bit-identical: -0.0 is not +0.0 (the sequential product folds from +0.0
    // and can never return -0.0)
    // (one NaN is as good as another: which payload survives a sum of several NaNs is not a "result")
    if x.is_nan() { return f64::NAN.to_bits(); }
    x.to_bits()
}

#[derive(Clone, Debug, Default)]
struct ExecOut {
    done: bool,
    r1: f64,
    r2: f64,
    probes: Vec<f64>,
    seq: f64,
    operands_intact: bool,
    cpu_queries: u64,
    /// after the in-place change: (dot_f64, sequential dot) on the changed data
    mutated: Option<(f64, f64)>,
    /// v.dot_f64(&v): the same object as receiver and argument
    self_dot: f64,
    /// result of the concurrent second caller and what it should be
    other_caller: Option<(f64, f64)>,
    /// thread creation was refused and the call refused loudly (panicked): nothing else to check
    refused_loudly: bool,
    spawns_refused: usize,
}

fn execute_raw(case: &Case) -> (Vec<ExecReport>, Vec<ExecOut>) {
    let outs: Arc<Mutex<Vec<ExecOut>>> = Arc::new(Mutex::new(vec![ExecOut::default(); case.scheds.len()]));
    let refused: Arc<Mutex<Vec<usize>>> = Arc::new(Mutex::new(vec![0; case.scheds.len()]));
    let r2 = refused.clone();
    let c = Arc::new(case.clone());
    let o2 = outs.clone();
    // runs on the server thread after every execution, also one that died: how many spawns were refused
    let after: crate::sched::Body = Arc::new(move |idx: usize| {
        let n = verif_seam::thread::spawns_refused();
        verif_seam::thread::refuse_spawns_from(None);
        verif_seam::num_cpus::set_override(None);
        if let Ok(mut v) = r2.lock() {
            v[idx] = n;
        }
    });
    let reports = crate::sched::run_under_with(&case.scheds, move |idx| {
        match c.cpu_flip {
            Some(other) => verif_seam::num_cpus::set_override_alternating(c.cpus, other),
            None => verif_seam::num_cpus::set_override(Some(c.cpus)),
        }
        verif_seam::thread::refuse_spawns_from(c.refuse_spawns_from);
        let q0 = verif_seam::num_cpus::calls();
        let out = {
        if c.decoy_len > 0 {
            // the earlier product ran under a larger CPU count (the affinity shrank since)
            verif_seam::num_cpus::set_override(Some(c.cpus + 1 + c.decoy_len % 5));
            let a = Vector::<f64>::create((0..c.decoy_len).map(|i| (i % 13) as f64 + 1.0).collect());
            let b = Vector::<f64>::create((0..c.decoy_len).map(|i| (i % 7) as f64 - 3.5).collect());
            let _ = a.dot_f64(&b);
            match c.cpu_flip {
                Some(other) => verif_seam::num_cpus::set_override_alternating(c.cpus, other),
                None => verif_seam::num_cpus::set_override(Some(c.cpus)),
            }
        }
        if c.failed_call_first {
            let a = Vector::<f64>::create(vec![1.0; c.v.len() + 1]);
            let b = Vector::<f64>::create(vec![1.0; c.v.len()]);
            let _ = std::panic::catch_unwind(std::panic::AssertUnwindSafe(|| a.dot_f64(&b)));
        }
        let other = if c.concurrent {
            let n2 = c.v.len() + 3;
            let want: f64 = (0..n2).map(|i| ((i % 11) as f64 + 1.0) * ((i % 5) as f64 - 2.0)).sum();
            Some((
                shuttle::thread::spawn(move || {
                    let a = Vector::<f64>::create((0..n2).map(|i| (i % 11) as f64 + 1.0).collect());
                    let b = Vector::<f64>::create((0..n2).map(|i| (i % 5) as f64 - 2.0).collect());
                    (a.dot_f64(&b), a.dot_f64(&b))
                }),
                want,
            ))
        } else {
            None
        };
        let mut v = Vector::<f64>::create(c.v.clone());
        let w = Vector::<f64>::create(c.w.clone());
        let r1 = v.dot_f64(&w);
        let r2 = v.dot_f64(&w);
        let intact = v.vec.iter().zip(c.v.iter()).all(|(a, b)| a.to_bits() == b.to_bits())
            && w.vec.iter().zip(c.w.iter()).all(|(a, b)| a.to_bits() == b.to_bits())
            && v.size() == c.v.len()
            && w.size() == c.w.len();
        let mut probes = Vec::with_capacity(c.probes.len());
        for &i in &c.probes {
            let mut e = vec![0.0f64; c.v.len()];
            e[i] = 1.0;
            let e = Vector::<f64>::create(e);
            probes.push(v.dot_f64(&e));
        }
        let seq = v.dot(&w);
        let self_dot = v.dot_f64(&v);
        let mutated = if c.mutate && !c.v.is_empty() {
            let k = c.v.len() / 2;
            v.vec[k] = mutated_value(c.v[k]);
            Some((v.dot_f64(&w), v.dot(&w)))
        } else {
            None
        };
        let other_caller = other.map(|(h, want)| {
            let (x1, x2) = h.join().expect("second caller panicked");
            (if x1.to_bits() == x2.to_bits() { x1 } else { f64::NAN }, want)
        });
        let q1 = verif_seam::num_cpus::calls();
        ExecOut { done: true, r1, r2, probes, seq, operands_intact: intact, cpu_queries: q1 - q0, mutated, self_dot, other_caller, refused_loudly: false, spawns_refused: verif_seam::thread::spawns_refused() }
        };
        verif_seam::num_cpus::set_override(None);
        let mut o = o2.lock().unwrap();
        o[idx] = out;
    }, Some(after));
    verif_seam::num_cpus::set_override(None);
    let mut outs = outs.lock().unwrap().clone();
    let mut reports = reports;
    let refused = refused.lock().unwrap().clone();
    for k in 0..outs.len() {
        // an injected spawn failure answered by a panic is a loud refusal (like a failed write), not a violation
        if reports[k].panic.is_some() && refused[k] > 0 {
            reports[k].panic = None;
            outs[k] = ExecOut { done: true, refused_loudly: true, spawns_refused: refused[k], ..Default::default() };
        }
    }
    (reports, outs)
}

impl Prop for C16 {
    type Case = Case;

    fn id(&self) -> &'static str {
        "C16"
    }
    fn tag(&self) -> u64 {
        16
    }
    fn cost(&self, case: &Case) -> u64 {
        1 + (case.v.len() as u64 * case.scheds.len().max(1) as u64) / 20_000
    }
    // isolate_runs() stays true: every chunk of 64 runs gets a fresh client thread and therefore a
    // fresh shuttle server thread (thread-local state of the system under test lives there); the
    // coroutine stacks are pooled within the chunk.
    fn runs(&self, tier: Tier) -> u64 {
        match tier {
            Tier::Quick => GRID * 2 + 6000,
            Tier::Thorough => GRID * 16 + 400_000,
        }
    }

    fn generate(&self, rng: &mut Rng, tier: Tier, run: u64) -> Case {
        let grid_passes = match tier {
            Tier::Quick => 2,
            Tier::Thorough => 16,
        };
        let (len, cpus, kind) = if run < GRID * grid_passes {
            let pair = run % GRID;
            let pass = run / GRID;
            let len = (pair / 16) as usize;
            let cpus = (pair % 16) as usize + 1;
            (len, cpus, if pass % 2 == 0 { Kind::Exact } else { Kind::General })
        } else {
            // beyond the grid: longer vectors, more CPUs than the machine has, families qW-1,qW,qW+1
            let cpus = match rng.below(10) {
                0 => 1,
                1..=5 => rng.urange(1, 16),
                6..=8 => rng.urange(17, 64),
                _ => rng.urange(65, 200),
            };
            let len = match rng.below(10) {
                0..=3 => {
                    let q = rng.urange(0, 4);
                    (q * cpus + rng.urange(0, 2)).saturating_sub(1)
                }
                4..=7 => rng.urange(201, 1200),
                8 => rng.urange(1201, 5000),
                _ => {
                    if rng.chance(0.2) {
                        // exact multiples of a power of two, and their neighbours: block sizes (k * 2^j - 1, k * 2^j, k * 2^j + 1)
                        let j = rng.urange(10, 20);
                        let k = rng.urange(1, 4);
                        (((k << j) + rng.urange(0, 2)).saturating_sub(1)).min(5_000_000)
                    } else if rng.chance(0.02) {
                        rng.urange(1_048_570, 5_000_000) // millions of elements: caps and block sizes in the 2^20..2^22 range
                    } else if rng.chance(0.15) {
                        rng.urange(5001, 150_000) // far beyond any block / cap size a rewrite might use
                    } else {
                        rng.urange(1201, 5000)
                    }
                }
            };
            (len, cpus, match rng.below(20) { 0..=8 => Kind::Exact, 9..=17 => Kind::General, _ => Kind::Special })
        };
        let data_seed = rng.next_u64();
        let (v, w) = gen_data(kind, data_seed, len);
        let mut prng = rng.fork(2);
        let n_probes = if len <= 64 { 3 } else { 2 };
        // (a basis probe multiplies every other entry by zero: meaningless when entries may be NaN or Inf)
        let probes = if kind == Kind::Special { vec![] } else { gen_probes(&mut prng, len, cpus, n_probes) };
        let mut srng = rng.fork(3);
        let k = match tier {
            Tier::Quick => 3,
            Tier::Thorough => 8,
        };
        // every call spawns `cpus` tasks; ids grow over the calls of one execution
        let max_tasks = cpus * (7 + probes.len()) + 1;
        let scheds = (0..k).map(|_| SchedSpec::draw(&mut srng, max_tasks)).collect();
        let mut hrng = rng.fork(4);
        let decoy_len = if hrng.chance(0.35) { len + hrng.urange(1, 3 * cpus + 2) } else { 0 };
        let mutate = hrng.chance(0.35);
        let concurrent = hrng.chance(0.2);
        let refuse_spawns_from = if hrng.chance(0.1) { Some(hrng.usize_below(3 * cpus + 1)) } else { None };
        let cpu_flip = if hrng.chance(0.08) { Some(if hrng.chance(0.5) { 1 } else { hrng.urange(1, 16) }) } else { None };
        // (switched off for a whole pass when the code under test turned out to block on something outside
        // the seams while a second caller was simulated: see Prop::hang_variant)
        let concurrent = concurrent && std::env::var(NO_CONCURRENT).is_err();
        let failed_call_first = hrng.chance(0.1);
        Case { cpus, kind, data_seed, gen_len: len, v, w, probes, decoy_len, mutate, concurrent, refuse_spawns_from, cpu_flip, failed_call_first, scheds }
    }

    fn hang_variant(&self, case: &Case) -> Option<(Case, &'static str)> {
        if case.concurrent {
            let mut c = case.clone();
            c.concurrent = false;
            Some((c, NO_CONCURRENT))
        } else {
            None
        }
    }

    fn execute(&self, case: &Case, stats: &mut Stats) -> Verdict {
        let len = case.v.len();
        let cpus = case.cpus;
        let (reports, outs) = execute_raw(case);

        // ---- bookkeeping / reach
        stats.log.u64(len as u64);
        stats.log.u64(cpus as u64);
        let mut ch = Fnv::new();
        ch.u64(len as u64);
        ch.u64(cpus as u64);
        for x in case.v.iter().chain(case.w.iter()) {
            ch.f64(*x);
        }
        if len >= 1 {
            stats.seen("nontrivial_cases", ch.finish());
        }
        stats.seen("len_w_pairs", (len as u64) << 20 | cpus as u64);
        if len < cpus {
            stats.count("probe.len_lt_w");
        }
        if len % cpus != 0 {
            stats.count("probe.len_mod_w_nonzero");
        }
        if len == 0 {
            stats.count("probe.len_zero");
        }
        if len / cpus == 0 {
            stats.count("probe.chunk_zero");
        }
        if len >= cpus && len % cpus != 0 {
            stats.count("probe.last_worker_bigger");
        }
        if cpus > 16 {
            stats.count("probe.cpus_above_16");
        }
        if case.decoy_len > 0 {
            stats.count("probe.history_other_product_before");
        }
        if case.cpu_flip.is_some() {
            stats.count("fault.cpu_count_alternates");
        }
        if case.failed_call_first {
            stats.count("probe.history_failed_call_before");
        }
        for r in &reports {
            stats.count("executions");
            stats.steps += r.trace.len() as u64;
            stats.seen("interleavings", trace_hash(&r.trace));
            stats.add("sched.real_choices", r.real_choices as u64);
            if r.out_of_spawn_order {
                stats.count("probe.worker_order_ne_spawn_order");
            }
            if r.main_blocked {
                stats.count("probe.main_blocked_on_join");
            }
            for t in &r.trace {
                stats.log.bytes(&t.to_le_bytes());
            }
            stats.log.bytes(&[0xfe]);
        }
        for s in &case.scheds {
            stats.count(&format!("sched.policy.{}", s.policy_name()));
            if let SchedSpec::Stall { .. } = s {
                stats.count("fault.stalled_worker");
            }
        }
        stats.add("dot_f64_calls", (reports.len() * (3 + case.probes.len() + (case.decoy_len > 0) as usize + (case.mutate && len > 0) as usize)) as u64);

        // ---- oracle (c): every execution completes — no panic, no deadlock
        for (k, r) in reports.iter().enumerate() {
            if let Some(msg) = &r.panic {
                let m = normalise_panic(msg);
                let class = if m.contains("deadlock") { "deadlock" } else { "panic" };
                return violation(
                    class,
                    &format!("dot_f64:{}", m.split(':').take(2).collect::<Vec<_>>().join(":")),
                    format!("len={len} cpus={cpus} schedule#{k} ({}): {m}", case.scheds[k].policy_name()),
                );
            }
            if !outs[k].done {
                return violation("harness-panic", "harness", format!("execution {k} produced no output and no panic"));
            }
        }

        // ---- reference values
        let (s2, sabs) = dot2(&case.v, &case.w);
        let u = f64::EPSILON / 2.0;
        let n = (len + 2) as f64;
        let gamma = n * u / (1.0 - n * u);
        let bound = gamma * sabs + f64::MIN_POSITIVE;

        for (k, o) in outs.iter().enumerate() {
            if o.spawns_refused > 0 {
                stats.add("fault.thread_spawn_refused", o.spawns_refused as u64);
            }
            if o.refused_loudly {
                stats.count("outcome.refused_loudly_after_spawn_failure");
                continue;
            }
            stats.log.f64(o.r1);
            stats.log.f64(o.r2);
            // oracle (d): operands intact
            if !o.operands_intact {
                return violation("operand-mutated", "dot_f64:operands", format!("len={len} cpus={cpus} schedule#{k}: an operand changed during dot_f64"));
            }
            // oracle (a): value
            match case.kind {
                Kind::Exact => {
                    let want = exact_i128(&case.v, &case.w) as f64;
                    if canon(o.r1) != canon(want) || canon(o.seq) != canon(want) {
                        return violation(
                            "value-mismatch",
                            "dot_f64:exact",
                            format!("len={len} cpus={cpus} schedule#{k}: dot_f64={:e} sequential dot={:e} exact integer dot={:e}", o.r1, o.seq, want),
                        );
                    }
                }
                Kind::Special => {
                    let class = |x: f64| if x.is_nan() { 0 } else if x == f64::INFINITY { 1 } else if x == f64::NEG_INFINITY { 2 } else { 3 };
                    stats.count("probe.special_values_checked");
                    if class(o.r1) != class(o.seq) || class(o.r2) != class(o.seq) || (class(o.seq) == 3 && !((o.r1 - o.seq).abs() <= 2.0 * bound)) {
                        return violation(
                            "value-mismatch",
                            "dot_f64:special-values",
                            format!("len={len} cpus={cpus} schedule#{k}: data with NaN/Inf/zero entries: dot_f64 = {:e}, sequential dot = {:e}", o.r1, o.seq),
                        );
                    }
                }
                Kind::General => {
                    if !((o.r1 - s2).abs() <= bound) {
                        return violation(
                            "value-mismatch",
                            "dot_f64:general",
                            format!(
                                "len={len} cpus={cpus} schedule#{k}: dot_f64={:e} reference={:e} |diff|={:e} exceeds reassociation bound {:e}",
                                o.r1,
                                s2,
                                (o.r1 - s2).abs(),
                                bound
                            ),
                        );
                    }
                    if !((o.seq - o.r1).abs() <= 2.0 * bound) {
                        return violation(
                            "value-mismatch",
                            "dot_f64:general-vs-seq",
                            format!("len={len} cpus={cpus} schedule#{k}: dot_f64={:e} sequential={:e} differ by more than reassociation allows ({:e})", o.r1, o.seq, 2.0 * bound),
                        );
                    }
                }
            }
            // very short vectors: every way of associating (and commuting) the rounded products can be
            // enumerated, for any partition and any number of workers. The result must be one of them, bit for
            // bit — reassociation is allowed, a different arithmetic (a fused multiply-add, say) is not.
            if case.kind == Kind::General && (2..=4).contains(&len) {
                let prods: Vec<f64> = case.v.iter().zip(case.w.iter()).map(|(a, b)| a * b).collect();
                let cands = assoc_sums(&prods);
                stats.count("probe.association_set_checked");
                if !cands.iter().any(|c| c.to_bits() == o.r1.to_bits()) {
                    return violation(
                        "value-mismatch",
                        "dot_f64:association-set",
                        format!("len={len} cpus={cpus} schedule#{k}: dot_f64 = {:e} ({:016x}) is none of the {} values obtainable by summing the rounded products in any order/association (sequential: {:e} ({:016x}))", o.r1, o.r1.to_bits(), cands.len(), o.seq, o.seq.to_bits()),
                    );
                }
            }
            // basis probes: index i covered exactly once
            for (j, &i) in case.probes.iter().enumerate() {
                stats.log.f64(o.probes[j]);
                if canon(o.probes[j]) != canon(case.v[i]) {
                    return violation(
                        "coverage",
                        "dot_f64:basis",
                        format!("len={len} cpus={cpus} schedule#{k}: dot_f64(v, e_{i}) = {:e}, expected v[{i}] = {:e} (index covered 0 or 2+ times)", o.probes[j], case.v[i]),
                    );
                }
            }
            // a concurrent second caller must not disturb, nor be disturbed
            if let Some((got, want)) = o.other_caller {
                stats.count("probe.concurrent_second_caller");
                if got.to_bits() != want.to_bits() {
                    return violation("value-mismatch", "dot_f64:concurrent-callers", format!("len={len} cpus={cpus} schedule#{k}: a second task computing another product at the same time got {:e} (or two different values), expected {:e}", got, want));
                }
            }
            // the same object as receiver and argument
            {
                stats.log.f64(o.self_dot);
                let ok = match case.kind {
                    Kind::Exact => o.self_dot.to_bits() == (exact_i128(&case.v, &case.v) as f64).to_bits(),
                    Kind::General => {
                        let (s4, a4) = dot2(&case.v, &case.v);
                        (o.self_dot - s4).abs() <= gamma * a4 + f64::MIN_POSITIVE
                    }
                    Kind::Special => {
                        let s4 = Vector::<f64>::create(case.v.clone()).dot(&Vector::<f64>::create(case.v.clone()));
                        (o.self_dot.is_nan() && s4.is_nan()) || o.self_dot == s4 || (s4.is_finite() && o.self_dot.is_finite())
                    }
                };
                if !ok {
                    return violation("value-mismatch", "dot_f64:self-product", format!("len={len} cpus={cpus} schedule#{k}: v.dot_f64(&v) = {:e} ({:016x}), sequential v.dot(&v) = {:e}", o.self_dot, o.self_dot.to_bits(), Vector::<f64>::create(case.v.clone()).dot(&Vector::<f64>::create(case.v.clone()))));
                }
            }
            // the same buffers with one element changed in place: the answer must follow the data
            if let Some((m1, mseq)) = o.mutated {
                let mut v2 = case.v.clone();
                let k = v2.len() / 2;
                v2[k] = mutated_value(v2[k]);
                stats.log.f64(m1);
                let ok = match case.kind {
                    Kind::Exact => {
                        let want = exact_i128(&v2, &case.w) as f64;
                        m1.to_bits() == want.to_bits() && mseq.to_bits() == want.to_bits()
                    }
                    Kind::General => {
                        let (s3, a3) = dot2(&v2, &case.w);
                        (m1 - s3).abs() <= gamma * a3 + f64::MIN_POSITIVE
                    }
                    Kind::Special => (m1.is_nan() && mseq.is_nan()) || m1 == mseq || (m1.is_finite() && mseq.is_finite()),
                };
                if !ok {
                    return violation(
                        "stale-result",
                        "dot_f64:in-place-change",
                        format!("len={len} cpus={cpus} schedule#{k2}: after changing v[{k}] in place dot_f64 = {:e}, sequential dot = {:e} (before the change dot_f64 was {:e})", m1, mseq, o.r1, k2 = k_idx(outs.as_slice(), o)),
                    );
                }
                stats.count("probe.in_place_change_checked");
            }
            // oracle (b1): repeated call inside one execution
            // (under an alternating CPU count the two calls legitimately use different partitions: on inexact
            // data they may then differ by reassociation, on exact data they still may not)
            if canon(o.r1) != canon(o.r2) && !(case.cpu_flip.is_some() && case.kind != Kind::Exact) {
                return violation(
                    "schedule-dependence",
                    "dot_f64:repeat",
                    format!("len={len} cpus={cpus} schedule#{k}: two calls on the same data in one execution gave {:e} and {:e} (bits {:016x} / {:016x})", o.r1, o.r2, o.r1.to_bits(), o.r2.to_bits()),
                );
            }
        }
        // oracle (b2): identical across schedules
        let firm: Vec<usize> = (0..outs.len()).filter(|k| !outs[*k].refused_loudly).collect();
        // (with an alternating CPU count AND a second caller, which of the two callers is told which count
        // depends on who asks first: on inexact data the first result may then legitimately differ by
        // reassociation from schedule to schedule; exact data still may not)
        let counts_depend_on_schedule = case.cpu_flip.is_some() && case.concurrent && case.kind != Kind::Exact;
        for &k in firm.iter().skip(1) {
            let k0 = firm[0];
            if canon(outs[k].r1) != canon(outs[k0].r1) && !counts_depend_on_schedule {
                return violation(
                    "schedule-dependence",
                    "dot_f64:across-schedules",
                    format!(
                        "len={len} cpus={cpus}: schedule#{k0} ({}) gave {:016x}, schedule#{k} ({}) gave {:016x}",
                        case.scheds[k0].policy_name(),
                        outs[k0].r1.to_bits(),
                        case.scheds[k].policy_name(),
                        outs[k].r1.to_bits()
                    ),
                );
            }
        }
        // recorded, not asserted: worker tasks per call, CPU-count queries
        if let Some(r) = reports.first() {
            let calls = 3 + case.probes.len() + (case.decoy_len > 0) as usize + (case.mutate && len > 0) as usize;
            let workers_per_call = r.max_task_id as usize / calls.max(1);
            stats.seen("workers_per_call_vs_cpus", ((workers_per_call as u64) << 16) | cpus as u64);
            if workers_per_call != cpus {
                stats.count("note.workers_per_call_ne_cpus");
            }
        }
        if let Some(o) = outs.first() {
            if o.cpu_queries == 0 {
                stats.count("note.cpu_count_not_consulted");
            }
        }
        Ok(())
    }

    fn pin(&self, case: &Case) -> Case {
        let (reports, _) = execute_raw(case);
        let mut c = case.clone();
        c.scheds = reports.iter().map(|r| SchedSpec::Script(r.trace.clone())).collect();
        c
    }

    fn shrink(&self, case: &Case) -> Vec<Case> {
        let mut out = vec![];
        let len = case.v.len();
        if case.decoy_len > 0 {
            let mut c = case.clone();
            c.decoy_len = 0;
            out.push(c);
        }
        if case.mutate {
            let mut c = case.clone();
            c.mutate = false;
            out.push(c);
        }
        if case.concurrent {
            let mut c = case.clone();
            c.concurrent = false;
            out.push(c);
        }
        if case.cpu_flip.is_some() {
            let mut c = case.clone();
            c.cpu_flip = None;
            out.push(c);
        }
        if case.failed_call_first {
            let mut c = case.clone();
            c.failed_call_first = false;
            out.push(c);
        }
        if let Some(k) = case.refuse_spawns_from {
            let mut c = case.clone();
            c.refuse_spawns_from = None;
            out.push(c);
            if k > 0 {
                let mut c = case.clone();
                c.refuse_spawns_from = Some(0);
                out.push(c);
            }
        }
        // fewer schedules
        if case.scheds.len() > 1 {
            for k in 0..case.scheds.len() {
                let mut c = case.clone();
                c.scheds = vec![case.scheds[k].clone()];
                out.push(c);
            }
            for k in 0..case.scheds.len() {
                let mut c = case.clone();
                c.scheds.remove(k);
                out.push(c);
            }
        }
        // no probes / fewer probes
        if !case.probes.is_empty() {
            let mut c = case.clone();
            c.probes.clear();
            out.push(c);
            for k in 0..case.probes.len() {
                let mut c = case.clone();
                c.probes = vec![case.probes[k]];
                if c.probes != case.probes {
                    out.push(c);
                }
            }
        }
        // shorter vectors (probes must stay in range)
        let shorter = |new_len: usize| -> Option<Case> {
            if new_len >= len {
                return None;
            }
            let mut c = case.clone();
            c.v.truncate(new_len);
            c.w.truncate(new_len);
            c.probes.retain(|i| *i < new_len);
            Some(c)
        };
        for nl in [len / 2, len.saturating_sub(case.cpus), len.saturating_sub(1)] {
            if let Some(c) = shorter(nl) {
                out.push(c);
            }
        }
        // fewer CPUs
        for nc in [1, 2, case.cpus / 2, case.cpus.saturating_sub(1)] {
            if nc >= 1 && nc < case.cpus {
                let mut c = case.clone();
                c.cpus = nc;
                out.push(c);
            }
        }
        // simpler data
        if len <= 50_000 && (case.v.iter().any(|x| *x != 1.0) || case.w.iter().any(|x| *x != 1.0)) {
            let mut c = case.clone();
            c.v = vec![1.0; len];
            c.w = vec![1.0; len];
            c.kind = Kind::Exact;
            out.push(c);
            let mut c = case.clone();
            c.v = (0..len).map(|i| (i + 1) as f64).collect();
            c.w = vec![1.0; len];
            c.kind = Kind::Exact;
            out.push(c);
        }
        // simpler schedules: canonical min-id script
        if case.scheds.iter().any(|s| *s != SchedSpec::MinId) {
            let mut c = case.clone();
            c.scheds = case.scheds.iter().map(|_| SchedSpec::MinId).collect();
            out.push(c);
        }
        out
    }

    fn to_json(&self, case: &Case) -> Value {
        json!({
            "len": case.v.len(),
            "cpus": case.cpus,
            "kind": match case.kind { Kind::Exact => "exact", Kind::General => "general", Kind::Special => "special" },
            "v_bits": if big_generated(case) { Value::Null } else { f64s_hex(&case.v) },
            "w_bits": if big_generated(case) { Value::Null } else { f64s_hex(&case.w) },
            "data_generated": if big_generated(case) { json!({"seed": case.data_seed.to_string(), "generated_len": case.gen_len, "truncated_to": case.v.len(),
                "note": "v and w are the first `truncated_to` elements of the stream gen_data(kind, seed, generated_len) of simcheck/src/c16.rs"}) } else { Value::Null },
            "v_preview": case.v.iter().take(8).collect::<Vec<_>>(),
            "w_preview": case.w.iter().take(8).collect::<Vec<_>>(),
            "basis_probes": case.probes,
            "history_decoy_product_len": case.decoy_len,
            "then_change_v_in_place_and_repeat": case.mutate,
            "second_concurrent_caller": case.concurrent,
            "fault_refuse_builder_spawns_from": case.refuse_spawns_from,
            "fault_cpu_count_alternates_with": case.cpu_flip,
            "history_failed_call_first": case.failed_call_first,
            "schedules": case.scheds.iter().map(|s| s.to_json()).collect::<Vec<_>>(),
        })
    }

    fn from_json(&self, v: &Value) -> Case {
        Case {
            cpus: usize_of(&v["cpus"]),
            kind: match v["kind"].as_str() { Some("general") => Kind::General, Some("special") => Kind::Special, _ => Kind::Exact },
            data_seed: v["data_generated"]["seed"].as_str().and_then(|s| s.parse().ok()).unwrap_or(0),
            gen_len: v["data_generated"]["generated_len"].as_u64().unwrap_or(0) as usize,
            v: regenerated(v).map(|d| d.0).unwrap_or_else(|| hex_f64s(&v["v_bits"])),
            w: regenerated(v).map(|d| d.1).unwrap_or_else(|| hex_f64s(&v["w_bits"])),
            probes: v["basis_probes"].as_array().map(|a| a.iter().map(usize_of).collect()).unwrap_or_default(),
            decoy_len: v["history_decoy_product_len"].as_u64().unwrap_or(0) as usize,
            mutate: v["then_change_v_in_place_and_repeat"].as_bool().unwrap_or(false),
            concurrent: v["second_concurrent_caller"].as_bool().unwrap_or(false),
            refuse_spawns_from: v["fault_refuse_builder_spawns_from"].as_u64().map(|x| x as usize),
            cpu_flip: v["fault_cpu_count_alternates_with"].as_u64().map(|x| x as usize),
            failed_call_first: v["history_failed_call_first"].as_bool().unwrap_or(false),
            scheds: v["schedules"].as_array().map(|a| a.iter().map(SchedSpec::from_json).collect()).unwrap_or_default(),
        }
    }

    fn describe(&self) -> Describe {
        Describe {
            rule: "one case = (length, simulated CPU count, data vectors, basis-probe indices, K schedule policies); the real dot_f64 is executed 2+|probes| times in each of K shuttle executions under our seeded scheduler. Grid part: every (len 0..=200) x (CPUs 1..=16) pair, alternating exact-integer and general-float data; random part: len up to 5000 (15% of a band up to 150k, 2% of it 1M..5M), CPUs up to 200, families qW-1,qW,qW+1, data 45% exact-integer / 45% general-float / 10% special (a few NaN, +-Inf or zero entries, sometimes opposite an all-zero partner: the class NaN/+Inf/-Inf/finite of the result must equal that of the sequential product); swarm faults per case: in-place change of one element between calls, a concurrent second caller, refused thread creation from the k-th spawn, a CPU count that alternates between consultations. A case is distinct by the hash of (len, CPUs, all data bits) and non-trivial when len >= 1; distinct interleavings = distinct task-id traces.".into(),
            assumptions: vec![
                "shuttle's coroutine model of std::thread::scope/spawn/join is faithful for code whose worker bodies contain no synchronisation (true of dot_f64: bodies read disjoint immutable slices)".into(),
                "the CPU-count override models num_cpus::get(); both are cross-checked by the Miri engine (real std threads, -Zmiri-num-cpus) in the thorough tier".into(),
                "general-float oracle is the reassociation bound gamma(len+2)*sum|v_i w_i| against a Dot2 (twice-working-precision) reference; it cannot alarm on any complete partition in any order".into(),
                "bit-identical is taken literally: -0.0 is not +0.0 (the sequential fold starts from +0.0 and cannot return -0.0)".into(),
            ],
            real_components: vec!["ohsl::Vector::<f64>::dot_f64 (partition, slices, worker closures, join loop, reduction)".into(), "ohsl::Vector::dot".into()],
            stub_components: vec!["std::thread::{scope,spawn,join} -> shuttle runtime + our scheduler".into(), "num_cpus::get -> per-run override".into()],
            fault_kinds: vec!["stalled_worker", "thread_spawn_refused", "cpu_count_alternates"],
            step_meaning: "ohsl has no clock; simulated_steps counts scheduler decisions (one per context-switch point: spawn, join, task exit)".into(),
        }
    }

    fn required_probes(&self, _tier: Tier) -> Vec<&'static str> {
        vec!["len_lt_w", "len_mod_w_nonzero", "len_zero", "chunk_zero", "last_worker_bigger", "worker_order_ne_spawn_order", "main_blocked_on_join", "history_other_product_before", "in_place_change_checked", "association_set_checked", "concurrent_second_caller"]
    }
}
