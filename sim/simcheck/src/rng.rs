//! The only source of randomness in the simulator: SplitMix64-seeded xoshiro256**.
//! Every run of every property derives its stream from `mix(VERIF_SEED, tag, run)`.

#[derive(Clone, Debug)]
pub struct Rng {
    s: [u64; 4],
}

#[inline]
pub fn splitmix64(x: &mut u64) -> u64 {
    *x = x.wrapping_add(0x9E37_79B9_7F4A_7C15);
    let mut z = *x;
    z = (z ^ (z >> 30)).wrapping_mul(0xBF58_476D_1CE4_E5B9);
    z = (z ^ (z >> 27)).wrapping_mul(0x94D0_49BB_1331_11EB);
    z ^ (z >> 31)
}

/// Derive a per-run seed from the global seed, a property tag and a run index.
pub fn mix(seed: u64, tag: u64, run: u64) -> u64 {
    let mut x = seed ^ 0xA076_1D64_78BD_642F;
    let a = splitmix64(&mut x);
    let mut y = a ^ tag.wrapping_mul(0xE703_7ED1_A0B4_28DB);
    let b = splitmix64(&mut y);
    let mut z = b ^ run.wrapping_mul(0x8EBC_6AF0_9C88_C6E3);
    splitmix64(&mut z)
}

impl Rng {
    pub fn new(seed: u64) -> Self {
        let mut x = seed;
        let s = [
            splitmix64(&mut x),
            splitmix64(&mut x),
            splitmix64(&mut x),
            splitmix64(&mut x),
        ];
        Rng { s }
    }

    #[inline]
    pub fn next_u64(&mut self) -> u64 {
        let result = self.s[1].wrapping_mul(5).rotate_left(7).wrapping_mul(9);
        let t = self.s[1] << 17;
        self.s[2] ^= self.s[0];
        self.s[3] ^= self.s[1];
        self.s[1] ^= self.s[2];
        self.s[0] ^= self.s[3];
        self.s[2] ^= t;
        self.s[3] = self.s[3].rotate_left(45);
        result
    }

    /// Uniform in 0..n (n > 0).
    #[inline]
    pub fn below(&mut self, n: u64) -> u64 {
        debug_assert!(n > 0);
        // multiply-shift; bias is negligible for the n used here and, more
        // importantly, the mapping is a pure function of the stream.
        ((self.next_u64() as u128 * n as u128) >> 64) as u64
    }

    #[inline]
    pub fn usize_below(&mut self, n: usize) -> usize {
        self.below(n as u64) as usize
    }

    /// Uniform in lo..=hi.
    #[inline]
    pub fn range(&mut self, lo: i64, hi: i64) -> i64 {
        debug_assert!(lo <= hi);
        lo + self.below((hi - lo) as u64 + 1) as i64
    }

    #[inline]
    pub fn urange(&mut self, lo: usize, hi: usize) -> usize {
        lo + self.below((hi - lo) as u64 + 1) as usize
    }

    /// Uniform in [0, 1).
    #[inline]
    pub fn unit(&mut self) -> f64 {
        (self.next_u64() >> 11) as f64 * (1.0 / 9007199254740992.0)
    }

    /// Uniform in [lo, hi).
    #[inline]
    pub fn uniform(&mut self, lo: f64, hi: f64) -> f64 {
        lo + (hi - lo) * self.unit()
    }

    #[inline]
    pub fn chance(&mut self, p: f64) -> bool {
        self.unit() < p
    }

    pub fn pick<'a, T>(&mut self, xs: &'a [T]) -> &'a T {
        &xs[self.usize_below(xs.len())]
    }

    /// An independent child stream (used so that adding draws in one component
    /// does not shift the stream of another).
    pub fn fork(&mut self, tag: u64) -> Rng {
        let a = self.next_u64();
        Rng::new(mix(a, tag, 0x51_7C_C1_B7))
    }

    pub fn shuffle<T>(&mut self, xs: &mut [T]) {
        for i in (1..xs.len()).rev() {
            let j = self.usize_below(i + 1);
            xs.swap(i, j);
        }
    }
}

/// FNV-1a 64, used for event-log digests and distinct-case hashing (never for choices).
#[derive(Clone, Copy, Debug)]
pub struct Fnv(pub u64);

impl Default for Fnv {
    fn default() -> Self {
        Fnv(0xcbf2_9ce4_8422_2325)
    }
}

impl Fnv {
    pub fn new() -> Self {
        Self::default()
    }
    #[inline]
    pub fn bytes(&mut self, b: &[u8]) {
        for &x in b {
            self.0 ^= x as u64;
            self.0 = self.0.wrapping_mul(0x0000_0100_0000_01B3);
        }
    }
    #[inline]
    pub fn u64(&mut self, v: u64) {
        self.bytes(&v.to_le_bytes());
    }
    #[inline]
    pub fn f64(&mut self, v: f64) {
        self.u64(v.to_bits());
    }
    #[inline]
    pub fn str(&mut self, s: &str) {
        self.bytes(s.as_bytes());
        self.bytes(&[0xff]);
    }
    pub fn finish(&self) -> u64 {
        let mut x = self.0;
        splitmix64(&mut x)
    }
}
