//! C19 — meshes under a history of operations, with the 1-D file round trip under
//! I/O faults. Real Mesh1D / Mesh2D code for everything; only the destination of the
//! bytes written by `output` and read by `read` is the simulated disk.

use crate::core::*;
use crate::rng::{Fnv, Rng};
use crate::simfs::{Armed, DiskState, FaultKind, SimDisk};
use ohsl::verif_seam;
use ohsl::{Mesh1D, Mesh2D, Vector};
use serde_json::{json, Value};
use std::cell::RefCell;
use std::rc::Rc;

// ------------------------------------------------------------------ case

#[derive(Clone, Debug, PartialEq)]
pub struct FaultSpec {
    /// 0 first call, 1 last call, 2 the call that ends a line, 3 fraction of the calls,
    /// 4 byte offset = fraction of the expected output size (writes only)
    pub pos: u8,
    pub frac: f64,
    pub kind: FaultKind,
    pub amount: usize,
}

/// Indices are reduced modulo what exists when the operation executes, so any
/// sub-sequence of a history is itself a valid history (shrinking).
#[derive(Clone, Debug, PartialEq)]
pub enum Op {
    Set1 { m: usize, node: usize, vals: Vec<f64> },
    IdxSet1 { m: usize, node: usize, var: usize, val: f64 },
    Get1 { m: usize, node: usize },
    Nodes1 { m: usize },
    Interp1 { m: usize, cell: usize, kind: u8, frac: f64 },
    Trap1 { m: usize, var: usize },
    LinCheck1 { m: usize, var: usize, a: f64, b: f64 },
    Output { m: usize, path: usize, prec: usize, faults: Vec<FaultSpec> },
    /// `foreign` != 0: the same reader first reads a file that `output` did not write (the acknowledged
    /// file with a comment line in the middle / cut inside a number / with a header line / cut at a
    /// token boundary); whatever that does (it may panic — caught — or return) is ignored, then the
    /// reader reads the acknowledged file and must reproduce it (round 13).
    Read { into: Option<usize>, fresh_nodes: usize, path: usize, faults: Vec<FaultSpec>, foreign: u8 },
    Set2 { i: usize, j: usize, vals: Vec<f64> },
    IdxSet2 { i: usize, j: usize, var: usize, val: f64 },
    Get2 { i: usize, j: usize },
    Nodes2,
    Assign2 { val: f64 },
    Apply2 { f: u8, var: usize },
    /// trapezium(var), square_trapezium(var); then apply(f, var) with a callback that panics at its
    /// `at`-th invocation (caught); then both integrals again. Which nodes were written before the panic
    /// is the implementation's business: the model is re-read from the mesh (every node must hold its
    /// old value or f's value there), and from then on everything must agree with it again.
    ApplyPanic2 { f: u8, var: usize, at: usize },
    XSec { i: usize },
    YSec { j: usize },
    VarMat { var: usize },
    Trap2 { var: usize },
    SqTrap2 { var: usize },
    BilinCheck2 { var: usize, a: f64, b: f64, c: f64, k: f64 },
    /// make the sibling 2-D mesh (same node counts and extents, mirrored interior spacing, its own
    /// data) the one the following 2-D operations act on — and back
    Swap2,
}

#[derive(Clone, Debug)]
pub struct Case {
    pub x1: Vec<f64>,
    pub nvars1: usize,
    pub x2: Vec<f64>,
    pub y2: Vec<f64>,
    pub nvars2: usize,
    pub ops: Vec<Op>,
}

pub struct C19;

// ------------------------------------------------------------------ reference models

#[derive(Clone, Debug)]
struct Model1 {
    nodes: Vec<f64>,
    vars: Vec<Vec<f64>>,
    nvars: usize,
}

#[derive(Clone, Debug)]
struct Model2 {
    x: Vec<f64>,
    y: Vec<f64>,
    vars: Vec<Vec<f64>>, // index i * ny + j
    nvars: usize,
}

#[derive(Clone, Debug)]
struct FileModel {
    content: Model1,
    prec: usize,
    acknowledged: bool,
}

fn apply_fn(f: u8, x: f64, y: f64) -> f64 {
    match f % 5 {
        0 => 3.0 * x - 2.0 * y + 1.0,
        1 => x * y + x,
        2 => 8.0 * x + y * y,
        3 => 7.0,
        _ => 16.0 * x - y,
    }
}

fn eq(a: f64, b: f64) -> bool {
    a == b || (a.is_nan() && b.is_nan())
}

fn grid_ok(nodes: &[f64]) -> bool {
    nodes.len() >= 2 && nodes.windows(2).all(|w| w[1] - w[0] >= 1.5e-3) && nodes.iter().all(|x| x.is_finite())
}

fn exact_friendly(nodes: &[f64], vals: impl Iterator<Item = f64>) -> bool {
    nodes.iter().all(|x| x.abs() <= 64.0 && (x * 512.0).fract() == 0.0) && vals.into_iter().all(|v| v.abs() <= 4096.0 && v.fract() == 0.0)
}

const U: f64 = f64::EPSILON / 2.0;

// ------------------------------------------------------------------ generation

fn gen_grid(rng: &mut Rng, min_nodes: usize, max_nodes: usize, coarse: bool) -> Vec<f64> {
    let n = rng.urange(min_nodes, max_nodes);
    let mut x0 = rng.range(-64, 64) as f64 / 8.0;
    if rng.chance(0.15) {
        // grids far from the origin (still dyadic): absolute thresholds must not become relative ones
        // (one in five of them very far: a time axis in epoch seconds; 2^30 + k/512 is still exact)
        let e = if rng.chance(0.2) { rng.range(14, 30) } else { rng.range(6, 13) };
        x0 += (2.0f64).powi(e as i32) * if rng.chance(0.5) { -1.0 } else { 1.0 };
    }
    let mut x = vec![x0];
    if n >= 5 && rng.chance(0.12) {
        // a non-uniform grid that looks uniform from its ends: first and last width equal the mean
        // width, interior widths come in pairs w/2, 3w/2 (any "is it uniform?" shortcut must say no)
        let e = if coarse { rng.range(0, 3) } else { rng.range(0, 7) };
        let w = 2.0 * rng.range(1, 2) as f64 * (2.0f64).powi(-(e as i32));
        let mut widths = vec![w];
        let interior = n - 3;
        for k in 0..interior / 2 {
            let (a, b) = if (k + rng.usize_below(2)) % 2 == 0 { (0.5 * w, 1.5 * w) } else { (1.5 * w, 0.5 * w) };
            widths.push(a);
            widths.push(b);
        }
        if interior % 2 == 1 {
            widths.insert(1 + rng.usize_below(widths.len()), w);
        }
        widths.push(w);
        for d in widths {
            let last = *x.last().unwrap();
            x.push(last + d);
        }
        return x;
    }
    // 10 %: stretched grids (far-field meshes): cell widths from 1/8 up to 3 * 2^12 side by side, so that a
    // threshold meant as absolute but written relative to the cell width (or the other way round) shows
    let stretched = rng.chance(0.1);
    for _ in 1..n {
        let e = if stretched { -rng.range(-3, 12) } else if coarse { rng.range(0, 4) } else { rng.range(0, 9) };
        let m = rng.range(1, 4) as f64;
        let last = *x.last().unwrap();
        x.push(last + m * (2.0f64).powi(-(e as i32)));
    }
    x
}

fn gen_val(rng: &mut Rng) -> f64 {
    if rng.chance(0.1) {
        0.0
    } else if rng.chance(0.03) {
        // the same data in other units: integers with up to twelve digits (column widths, digit counts)
        rng.range(-1000, 1000) as f64 * (10.0f64).powi(rng.range(3, 9) as i32)
    } else {
        rng.range(-1000, 1000) as f64
    }
}

fn gen_faults(rng: &mut Rng, mode: u8, writing: bool) -> Vec<FaultSpec> {
    // mode 0: none, 1: transient only, 2: hard and transient
    if mode == 0 || !rng.chance(0.6) {
        return vec![];
    }
    let mut out = vec![];
    let count = match rng.below(10) {
        0..=5 => 1,
        6..=8 => 2,
        _ => 4,
    };
    for _ in 0..count {
        let hard = mode == 2 && rng.chance(0.5);
        let kind = if writing {
            if hard {
                match rng.below(4) {
                    0 => FaultKind::CreateFail(rng.below(3) as u8),
                    1 | 2 => FaultKind::WriteFail(rng.below(2) as u8),
                    _ => FaultKind::WriteZero,
                }
            } else if rng.chance(0.6) {
                FaultKind::ShortWrite
            } else {
                FaultKind::EintrWrite
            }
        } else if hard {
            if rng.chance(0.5) {
                FaultKind::OpenFail(rng.below(3) as u8)
            } else {
                FaultKind::ReadFail
            }
        } else if rng.chance(0.6) {
            FaultKind::ShortRead
        } else {
            FaultKind::EintrRead
        };
        out.push(FaultSpec { pos: rng.below(if writing { 5 } else { 4 }) as u8, frac: rng.unit(), kind, amount: rng.usize_below(1 << 16) });
    }
    out
}

impl C19 {
    fn gen_case(&self, rng: &mut Rng, tier: Tier, _run: u64) -> Case {
        let coarse = rng.chance(0.3);
        let max_nodes = if rng.chance(if tier == Tier::Thorough { 0.05 } else { 0.03 }) { 40 } else { 12 };
        // (one case in a hundred: a 1-D mesh with up to 300 nodes — block sizes, recursion cut-offs)
        let x1 = if rng.chance(0.01) { gen_grid(rng, 100, 300, coarse) } else { gen_grid(rng, 2, max_nodes, coarse) };
        let nvars1 = rng.urange(1, 4);
        let x2 = gen_grid(rng, 2, max_nodes.min(12), coarse);
        let y2 = gen_grid(rng, 2, max_nodes.min(12), coarse);
        let nvars2 = rng.urange(1, 4);
        let mode = match rng.below(20) {
            0..=7 => 0u8,
            8..=14 => 1,
            _ => 2,
        };
        let n_ops = if rng.chance(0.03) { rng.urange(41, 120) } else { rng.urange(5, 40) };
        // swarm: per-run weights for the operation families
        let w_io = rng.urange(1, 6);
        let w_1d = rng.urange(1, 6);
        let w_2d = rng.urange(0, 6);
        let total = w_io + w_1d + w_2d;
        let mut ops = Vec::with_capacity(n_ops);
        // seed data first so that most meshes hold something other than zeros
        if rng.chance(0.8) {
            for node in 0..x1.len() {
                ops.push(Op::Set1 { m: 0, node, vals: (0..nvars1).map(|_| gen_val(rng)).collect() });
            }
        }
        if w_2d > 0 && rng.chance(0.7) {
            for i in 0..x2.len() {
                for j in 0..y2.len() {
                    if rng.chance(0.7) {
                        ops.push(Op::Set2 { i, j, vals: (0..nvars2).map(|_| gen_val(rng)).collect() });
                    }
                }
            }
        }
        for _ in 0..n_ops {
            let r = rng.usize_below(total);
            let op = if r < w_io {
                if rng.chance(0.55) {
                    Op::Output { m: rng.usize_below(8), path: rng.usize_below(3), prec: *rng.pick(&[0usize, 1, 2, 3, 6, 9, 10, 12, 15, 17, 17, 20, 30]), faults: gen_faults(rng, mode, true) }
                } else {
                    Op::Read {
                        into: if rng.chance(0.5) { Some(rng.usize_below(8)) } else { None },
                        fresh_nodes: *rng.pick(&[0usize, 0, 1, 2, 5, 13, 30]),
                        path: rng.usize_below(3),
                        faults: gen_faults(rng, mode, false),
                        foreign: if rng.chance(0.12) { 1 + rng.below(4) as u8 } else { 0 },
                    }
                }
            } else if r < w_io + w_1d {
                let m = rng.usize_below(8);
                match rng.below(12) {
                    0 | 1 => Op::Set1 { m, node: rng.usize_below(64), vals: (0..4).map(|_| gen_val(rng)).collect() },
                    2 | 3 => Op::IdxSet1 { m, node: rng.usize_below(64), var: rng.usize_below(4), val: gen_val(rng) },
                    4 => Op::Get1 { m, node: rng.usize_below(64) },
                    5 => Op::Nodes1 { m },
                    6 | 7 | 8 => Op::Interp1 { m, cell: rng.usize_below(64), kind: rng.below(8) as u8, frac: rng.unit() },
                    9 | 10 => Op::Trap1 { m, var: rng.usize_below(4) },
                    _ => Op::LinCheck1 { m, var: rng.usize_below(4), a: rng.range(-20, 20) as f64, b: rng.range(-8, 8) as f64 },
                }
            } else {
                match rng.below(16) {
                    14 | 15 => Op::Swap2,
                    0 | 1 => Op::Set2 { i: rng.usize_below(64), j: rng.usize_below(64), vals: (0..4).map(|_| gen_val(rng)).collect() },
                    2 => Op::IdxSet2 { i: rng.usize_below(64), j: rng.usize_below(64), var: rng.usize_below(4), val: gen_val(rng) },
                    3 => Op::Get2 { i: rng.usize_below(64), j: rng.usize_below(64) },
                    4 => Op::Nodes2,
                    5 => Op::Assign2 { val: gen_val(rng) },
                    6 => {
                        if rng.chance(0.3) {
                            Op::ApplyPanic2 { f: rng.below(5) as u8, var: rng.usize_below(4), at: rng.usize_below(64) }
                        } else {
                            Op::Apply2 { f: rng.below(5) as u8, var: rng.usize_below(4) }
                        }
                    }
                    7 | 8 => Op::XSec { i: rng.usize_below(64) },
                    9 | 10 => Op::YSec { j: rng.usize_below(64) },
                    11 => Op::VarMat { var: rng.usize_below(4) },
                    12 => {
                        if rng.chance(0.5) {
                            Op::Trap2 { var: rng.usize_below(4) }
                        } else {
                            Op::SqTrap2 { var: rng.usize_below(4) }
                        }
                    }
                    _ => Op::BilinCheck2 { var: rng.usize_below(4), a: rng.range(-9, 9) as f64, b: rng.range(-4, 4) as f64, c: rng.range(-4, 4) as f64, k: rng.range(-3, 3) as f64 },
                }
            };
            ops.push(op);
        }
        Case { x1, nvars1, x2, y2, nvars2, ops }
    }
}

// ------------------------------------------------------------------ execution

struct Live1 {
    mesh: Mesh1D<f64, f64>,
    model: Model1,
}

struct World<'a> {
    stats: &'a mut Stats,
    disk: Rc<RefCell<DiskState>>,
    pool: Vec<Option<Live1>>,
    m2: Mesh2D<f64>,
    model2: Model2,
    /// the sibling 2-D mesh that is currently not active
    other2: Option<(Mesh2D<f64>, Model2)>,
    files: Vec<Option<FileModel>>,
    dir: String,
    op_index: usize,
    real_dir_made: bool,
    /// read() was seen to bypass the seam: keep the real directory in sync before every read
    read_bypass: bool,
}

fn vfail(class: &str, key: &str, w: &World, what: String) -> Verdict {
    violation(class, &format!("mesh:{key}"), format!("op#{}: {what}", w.op_index))
}

impl<'a> World<'a> {
    fn pick1(&self, m: usize) -> Option<usize> {
        let live: Vec<usize> = self.pool.iter().enumerate().filter(|(_, s)| s.is_some()).map(|(i, _)| i).collect();
        if live.is_empty() {
            None
        } else {
            Some(live[m % live.len()])
        }
    }

    fn make_real_dir(&mut self) {
        if !self.real_dir_made {
            let _ = std::fs::create_dir_all(&self.dir);
            self.real_dir_made = true;
        }
    }

    /// write every simulated file to its real path (seam-bypass fallback only)
    fn materialise(&mut self) {
        self.read_bypass = true;
        self.make_real_dir();
        let d = self.disk.borrow();
        for (path, bytes) in d.files.iter() {
            let _ = std::fs::write(path, bytes);
        }
    }

    fn path(&self, p: usize) -> String {
        format!("{}/mesh{}.dat", self.dir, p)
    }

    /// every access path of a 1-D mesh against its model
    fn check1(&self, slot: usize, after: &str) -> Verdict {
        let l = self.pool[slot].as_ref().unwrap();
        let (mesh, model) = (&l.mesh, &l.model);
        if mesh.nnodes() != model.nodes.len() || mesh.nvars() != model.nvars {
            return vfail("stored-data", "1d-shape", self, format!("after {after}: 1-D mesh reports {} nodes / {} vars, model has {} / {}", mesh.nnodes(), mesh.nvars(), model.nodes.len(), model.nvars));
        }
        let nodes = mesh.nodes();
        for k in 0..model.nodes.len() {
            if !eq(mesh.coord(k), model.nodes[k]) || !eq(nodes.vec[k], model.nodes[k]) {
                return vfail("stored-data", "1d-nodes", self, format!("after {after}: node {k} is {:e} (coord) / {:e} (nodes()), expected {:e}", mesh.coord(k), nodes.vec[k], model.nodes[k]));
            }
            let got = mesh.get_nodes_vars(k);
            let idx = &mesh[k];
            if got.size() != model.nvars || idx.size() != model.nvars {
                return vfail("stored-data", "1d-vars", self, format!("after {after}: node {k} holds {} / {} variables, expected {}", got.size(), idx.size(), model.nvars));
            }
            for v in 0..model.nvars {
                if !eq(got.vec[v], model.vars[k][v]) || !eq(idx.vec[v], model.vars[k][v]) {
                    return vfail("stored-data", "1d-vars", self, format!("after {after}: node {k} var {v}: get_nodes_vars={:e} index={:e} expected {:e}", got.vec[v], idx.vec[v], model.vars[k][v]));
                }
            }
        }
        Ok(())
    }

    fn check2(&self, after: &str) -> Verdict {
        let (m, model) = (&self.m2, &self.model2);
        let (nx, ny) = (model.x.len(), model.y.len());
        if m.nnodes() != (nx, ny) || m.nvars() != model.nvars {
            return vfail("stored-data", "2d-shape", self, format!("after {after}: 2-D mesh reports {:?} nodes / {} vars, model {:?} / {}", m.nnodes(), m.nvars(), (nx, ny), model.nvars));
        }
        for i in 0..nx {
            for j in 0..ny {
                let got = m.get_nodes_vars(i, j);
                let idx = &m[(i, j)];
                let c = m.coord(i, j);
                if !eq(c.0, model.x[i]) || !eq(c.1, model.y[j]) {
                    return vfail("stored-data", "2d-coord", self, format!("after {after}: coord({i},{j}) = {c:?}, expected ({:e},{:e})", model.x[i], model.y[j]));
                }
                for v in 0..model.nvars {
                    let want = model.vars[i * ny + j][v];
                    if !eq(got.vec[v], want) || !eq(idx.vec[v], want) {
                        return vfail("stored-data", "2d-vars", self, format!("after {after}: node ({i},{j}) var {v}: get_nodes_vars={:e} index={:e} expected {:e}", got.vec[v], idx.vec[v], want));
                    }
                }
            }
        }
        Ok(())
    }

    fn arm(&self, specs: &[FaultSpec], est_calls: usize, row_len: usize, est_bytes: usize) -> Vec<Armed> {
        specs
            .iter()
            .map(|s| {
                let est = est_calls.max(1);
                let at = match s.pos {
                    0 => 0,
                    1 => est - 1,
                    2 => {
                        if row_len > 0 {
                            let rows = (est / row_len).max(1);
                            ((s.frac * rows as f64) as usize).min(rows - 1) * row_len + row_len - 1
                        } else {
                            0
                        }
                    }
                    _ => ((s.frac * est as f64) as usize).min(est - 1),
                };
                let byte = if s.pos == 4 { Some((s.frac * est_bytes as f64) as usize) } else { None };
                Armed { at, kind: s.kind, amount: s.amount, byte }
            })
            .collect()
    }

    fn count_fired(&mut self, est_calls: usize) {
        let fired: Vec<(usize, FaultKind)> = self.disk.borrow().op_fired.clone();
        let mut transient = 0;
        for (at, k) in &fired {
            self.stats.count(&format!("fault.{}", k.name()));
            if !k.is_hard() {
                transient += 1;
            }
            if matches!(k, FaultKind::ShortWrite | FaultKind::EintrWrite | FaultKind::WriteFail(_) | FaultKind::WriteZero) {
                if *at == 0 {
                    self.stats.count("probe.fault_on_first_write");
                } else if *at + 1 >= est_calls {
                    self.stats.count("probe.fault_on_last_write");
                } else {
                    self.stats.count("probe.fault_on_middle_write");
                }
            }
        }
        if transient >= 2 {
            self.stats.count("probe.two_transient_faults_in_one_call");
        }
    }

    /// compare a mesh that was read from `file` with the file's content
    fn compare_read(&self, mesh: &Mesh1D<f64, f64>, file: &FileModel, what: &str, class: &str) -> Verdict {
        let want = &file.content;
        if mesh.nnodes() != want.nodes.len() {
            return vfail(class, "round-trip-count", self, format!("{what}: reader has {} nodes, the file was written from {} nodes (precision {})", mesh.nnodes(), want.nodes.len(), file.prec));
        }
        let tol_of = |x: f64| 0.5 * (10.0f64).powi(-(file.prec as i32)) * (1.0 + 1e-9) + 2.0 * U * x.abs() + f64::MIN_POSITIVE;
        let printable = file.prec >= 9;
        for k in 0..want.nodes.len() {
            let got = mesh.coord(k);
            let w = want.nodes[k];
            let dyadic9 = w.abs() <= 1e6 && (w * 512.0).fract() == 0.0;
            let ok = if printable && dyadic9 { got == w } else { (got - w).abs() <= tol_of(w) };
            if !ok {
                return vfail(class, "round-trip-node", self, format!("{what}: node {k} read back as {got:e}, written {w:e} with precision {}", file.prec));
            }
            let vars = mesh.get_nodes_vars(k);
            if vars.size() != want.nvars {
                return vfail(class, "round-trip-count", self, format!("{what}: node {k} has {} variables, expected {}", vars.size(), want.nvars));
            }
            for v in 0..want.nvars {
                let g = vars.vec[v];
                let wv = want.vars[k][v];
                let integral = wv.fract() == 0.0 && wv.abs() < 1e15;
                let ok = if integral { g == wv } else { (g - wv).abs() <= tol_of(wv) };
                if !ok {
                    return vfail(class, "round-trip-var", self, format!("{what}: node {k} var {v} read back as {g:e}, written {wv:e} with precision {}", file.prec));
                }
            }
        }
        Ok(())
    }

    fn snapshot(mesh: &Mesh1D<f64, f64>) -> Model1 {
        let n = mesh.nnodes();
        Model1 { nodes: (0..n).map(|k| mesh.coord(k)).collect(), vars: (0..n).map(|k| mesh.get_nodes_vars(k).vec.clone()).collect(), nvars: mesh.nvars() }
    }

    fn step(&mut self, op: &Op) -> Verdict {
        match op {
            Op::Set1 { m, node, vals } => {
                let Some(s) = self.pick1(*m) else { return Ok(()) };
                let l = self.pool[s].as_mut().unwrap();
                let n = l.model.nodes.len();
                if n == 0 {
                    return Ok(());
                }
                let node = node % n;
                let v: Vec<f64> = (0..l.model.nvars).map(|k| vals[k % vals.len().max(1)]).collect();
                l.mesh.set_nodes_vars(node, Vector::<f64>::create(v.clone()));
                l.model.vars[node] = v;
                self.stats.count("op.set_nodes_vars_1d");
                self.check1(s, "set_nodes_vars")
            }
            Op::IdxSet1 { m, node, var, val } => {
                let Some(s) = self.pick1(*m) else { return Ok(()) };
                let l = self.pool[s].as_mut().unwrap();
                let n = l.model.nodes.len();
                if n == 0 || l.model.nvars == 0 {
                    return Ok(());
                }
                let (node, var) = (node % n, var % l.model.nvars);
                l.mesh[node][var] = *val;
                l.model.vars[node][var] = *val;
                self.stats.count("op.index_mut_1d");
                self.check1(s, "index_mut write")
            }
            Op::Get1 { m, .. } | Op::Nodes1 { m } => {
                let Some(s) = self.pick1(*m) else { return Ok(()) };
                self.stats.count("op.read_access_1d");
                self.check1(s, "read access")
            }
            Op::Interp1 { m, cell, kind, frac } => {
                let Some(s) = self.pick1(*m) else { return Ok(()) };
                let l = self.pool[s].as_ref().unwrap();
                if !grid_ok(&l.model.nodes) {
                    self.stats.count("skip.interp_on_degenerate_grid");
                    return Ok(());
                }
                let n = l.model.nodes.len();
                let c = cell % (n - 1);
                let (xl, xr) = (l.model.nodes[c], l.model.nodes[c + 1]);
                // kinds 6, 7: a distance d from a node anywhere between 1e-6 and a quarter of the cell, log-uniform
                // (1e-6 * 2^j): still "at least 1e-6 away from every node", but no longer "a hair more than"
                let near_d = |width: f64| {
                    let j = (frac * 4096.0) as i32 % 22;
                    (1.0e-6 * (1.001 + frac) * (2.0f64).powi(j)).min(0.25 * width)
                };
                // (a node at zero is also asked for as -0.0, and a node at -0.0 as +0.0: the same point)
                let flip0 = |v: f64| if v == 0.0 && *frac < 0.5 { -v } else { v };
                let x = match kind % 8 {
                    0 => flip0(xl),
                    1 => flip0(xr),
                    2 => 0.5 * (xl + xr),
                    6 => xr - near_d(xr - xl),
                    7 => xl + near_d(xr - xl),
                    // just inside the cell, a hair more than 1e-6 away from a node (the closest the property allows)
                    4 => xr - 1.0e-6 * (1.001 + frac),
                    5 => xl + 1.0e-6 * (1.001 + frac),
                    _ => {
                        let lo = xl + 1.0e-6;
                        let hi = xr - 1.0e-6;
                        lo + (hi - lo) * frac
                    }
                };
                if x == 0.0 && ((kind % 8 == 0 && x.to_bits() != xl.to_bits()) || (kind % 8 == 1 && x.to_bits() != xr.to_bits())) {
                    self.stats.count("probe.node_at_zero_queried_with_other_sign");
                }
                // far from the origin the point is rounded to the grid of doubles there: keep it at least 1e-6
                // away from both nodes (the property's domain), else take the middle of the cell
                let x = if x != xl && x != xr && (x - xl < 1.0e-6 || xr - x < 1.0e-6) { 0.5 * (xl + xr) } else { x };
                let got = l.mesh.get_interpolated_vars(x);
                if xr - xl > 10.0 || (c + 2 < n && l.model.nodes[c + 2] - xr > 10.0) || (c > 0 && xl - l.model.nodes[c - 1] > 10.0) {
                    self.stats.count("probe.interpolation_next_to_a_cell_wider_than_10");
                }
                self.stats.count(match kind % 8 {
                    0 | 1 => "op.interpolate_at_node",
                    2 => "op.interpolate_mid_cell",
                    4 | 5 => "op.interpolate_1e-6_from_a_node",
                    6 | 7 => "op.interpolate_1e-6_to_quarter_cell_from_a_node",
                    _ => "op.interpolate_interior",
                });
                if xl.abs() > 64.0 {
                    self.stats.count("probe.interpolation_far_from_origin");
                }
                if got.size() != l.model.nvars {
                    return vfail("interpolation", "interp-size", self, format!("get_interpolated_vars({x:e}) returned {} values, expected {}", got.size(), l.model.nvars));
                }
                for v in 0..l.model.nvars {
                    let (a, b) = (l.model.vars[c][v], l.model.vars[c + 1][v]);
                    let want = if x == xl {
                        a
                    } else if x == xr {
                        b
                    } else {
                        a + (b - a) / (xr - xl) * (x - xl)
                    };
                    let tol = 16.0 * U * (a.abs() + b.abs()) + 1e-300;
                    if !((got.vec[v] - want).abs() <= tol) {
                        return vfail(
                            "interpolation",
                            "interp-value",
                            self,
                            format!("get_interpolated_vars({x:e}) var {v} = {:e}; linear interpolant on cell [{xl:e},{xr:e}] with nodal values {a:e},{b:e} is {want:e} (nodes {:?})", got.vec[v], l.model.nodes),
                        );
                    }
                }
                Ok(())
            }
            Op::Trap1 { m, var } => {
                let Some(s) = self.pick1(*m) else { return Ok(()) };
                let l = self.pool[s].as_ref().unwrap();
                let n = l.model.nodes.len();
                if n < 2 || l.model.nvars == 0 {
                    return Ok(());
                }
                let var = var % l.model.nvars;
                let got = l.mesh.trapezium(var);
                let mut want = 0.0;
                let mut abs = 0.0;
                for k in 0..n - 1 {
                    let dx = l.model.nodes[k + 1] - l.model.nodes[k];
                    want += 0.5 * dx * (l.model.vars[k][var] + l.model.vars[k + 1][var]);
                    abs += 0.5 * dx.abs() * (l.model.vars[k][var].abs() + l.model.vars[k + 1][var].abs());
                }
                let exact = exact_friendly(&l.model.nodes, l.model.vars.iter().map(|v| v[var]));
                self.stats.count(if exact { "op.trapezium_1d_exact" } else { "op.trapezium_1d_rounded" });
                let ok = if exact { got == want } else { (got - want).abs() <= 8.0 * n as f64 * U * abs + 1e-300 };
                if !ok {
                    return vfail("quadrature", "trap1", self, format!("1-D trapezium(var {var}) = {got:e}, sum of cell contributions = {want:e} (nodes {:?})", l.model.nodes));
                }
                Ok(())
            }
            Op::LinCheck1 { m, var, a, b } => {
                let Some(s) = self.pick1(*m) else { return Ok(()) };
                let l = self.pool[s].as_mut().unwrap();
                let n = l.model.nodes.len();
                if n < 2 || l.model.nvars == 0 || !l.model.nodes.iter().all(|x| x.is_finite() && x.abs() < 1e6) {
                    return Ok(());
                }
                let var = var % l.model.nvars;
                for k in 0..n {
                    let v = a + b * l.model.nodes[k];
                    l.mesh[k][var] = v;
                    l.model.vars[k][var] = v;
                }
                let got = l.mesh.trapezium(var);
                let (x0, x1) = (l.model.nodes[0], l.model.nodes[n - 1]);
                // (the integral of x written as (x1 - x0)(x0 + x1)/2: x1^2 - x0^2 cancels catastrophically far from the origin)
                let want = a * (x1 - x0) + b * 0.5 * (x1 - x0) * (x0 + x1);
                // tolerance relative to the magnitudes that enter the computation (|a| L + |b| x^2 and the
                // nodal values), never to the result, which may cancel to ~0
                let mut abs = (x1 - x0) * (a.abs() + b.abs() * x0.abs().max(x1.abs()));
                for k in 0..n - 1 {
                    abs += 0.5 * (l.model.nodes[k + 1] - l.model.nodes[k]) * (l.model.vars[k][var].abs() + l.model.vars[k + 1][var].abs());
                }
                self.stats.count("op.trapezium_1d_linear_closed_form");
                if !((got - want).abs() <= 1e-11 * abs + 1e-300) {
                    let nodes = l.model.nodes.clone();
                    return vfail("quadrature", "trap1-linear", self, format!("1-D trapezium of the linear function {a}+{b}x over [{x0:e},{x1:e}] = {got:e}, exact integral {want:e} (nodes {:?})", nodes));
                }
                self.check1(s, "linear fill")
            }
            Op::Output { m, path, prec, faults } => self.do_output(*m, *path, *prec, faults),
            Op::Read { into, fresh_nodes, path, faults, foreign } => self.do_read(*into, *fresh_nodes, *path, faults, *foreign),
            Op::Set2 { i, j, vals } => {
                let (nx, ny) = (self.model2.x.len(), self.model2.y.len());
                let (i, j) = (i % nx, j % ny);
                let v: Vec<f64> = (0..self.model2.nvars).map(|k| vals[k % vals.len().max(1)]).collect();
                self.m2.set_nodes_vars(i, j, Vector::<f64>::create(v.clone()));
                self.model2.vars[i * ny + j] = v;
                self.stats.count("op.set_nodes_vars_2d");
                self.check2("set_nodes_vars")
            }
            Op::IdxSet2 { i, j, var, val } => {
                let (nx, ny) = (self.model2.x.len(), self.model2.y.len());
                let (i, j, var) = (i % nx, j % ny, var % self.model2.nvars);
                self.m2[(i, j)][var] = *val;
                self.model2.vars[i * ny + j][var] = *val;
                self.stats.count("op.index_mut_2d");
                self.check2("index_mut write")
            }
            Op::Get2 { .. } | Op::Nodes2 => {
                let xs = self.m2.xnodes();
                let ys = self.m2.ynodes();
                if xs.vec.len() != self.model2.x.len() || ys.vec.len() != self.model2.y.len() || !xs.vec.iter().zip(&self.model2.x).all(|(a, b)| eq(*a, *b)) || !ys.vec.iter().zip(&self.model2.y).all(|(a, b)| eq(*a, *b)) {
                    return vfail("stored-data", "2d-nodes", self, format!("xnodes()/ynodes() = {:?} / {:?}, expected {:?} / {:?}", xs.vec, ys.vec, self.model2.x, self.model2.y));
                }
                self.stats.count("op.read_access_2d");
                self.check2("read access")
            }
            Op::Assign2 { val } => {
                self.m2.assign(*val);
                for v in self.model2.vars.iter_mut() {
                    for e in v.iter_mut() {
                        *e = *val;
                    }
                }
                self.stats.count("op.assign_2d");
                self.check2("assign")
            }
            Op::Apply2 { f, var } => {
                let var = var % self.model2.nvars;
                let ny = self.model2.y.len();
                let f = *f;
                self.m2.apply(&|x, y| apply_fn(f, x, y), var);
                for i in 0..self.model2.x.len() {
                    for j in 0..ny {
                        self.model2.vars[i * ny + j][var] = apply_fn(f, self.model2.x[i], self.model2.y[j]);
                    }
                }
                self.stats.count("op.apply_2d");
                self.check2("apply")
            }
            Op::ApplyPanic2 { f, var, at } => {
                let var = var % self.model2.nvars;
                let (nx, ny) = (self.model2.x.len(), self.model2.y.len());
                let f = *f;
                self.step(&Op::Trap2 { var })?;
                self.step(&Op::SqTrap2 { var })?;
                let at = at % (nx * ny);
                let calls = std::cell::Cell::new(0usize);
                let r = catch(|| {
                    self.m2.apply(
                        &|x, y| {
                            let k = calls.get();
                            calls.set(k + 1);
                            if k == at {
                                panic!("scripted panic in the apply callback");
                            }
                            apply_fn(f, x, y)
                        },
                        var,
                    )
                });
                self.stats.count("op.apply_2d_callback_panics");
                // (whether the panic reaches the caller is not C19's business; what is stored afterwards is)
                let _ = r;
                for i in 0..nx {
                    for j in 0..ny {
                        let got = self.m2.get_nodes_vars(i, j);
                        if got.size() != self.model2.nvars {
                            return vfail("stored-data", "2d-shape", self, format!("after an apply interrupted by a panicking callback: node ({i},{j}) holds {} variables", got.size()));
                        }
                        let old = self.model2.vars[i * ny + j][var];
                        let new = apply_fn(f, self.model2.x[i], self.model2.y[j]);
                        let g = got.vec[var];
                        if !eq(g, old) && !eq(g, new) {
                            return vfail("stored-data", "apply-panic-garbage", self, format!("after an apply interrupted by a panicking callback: node ({i},{j}) var {var} = {g:e}, neither the old value {old:e} nor f(x,y) = {new:e}"));
                        }
                        self.model2.vars[i * ny + j][var] = g;
                    }
                }
                self.check2("apply interrupted by a panicking callback")?;
                self.step(&Op::Trap2 { var })?;
                self.step(&Op::SqTrap2 { var })
            }
            Op::XSec { i } | Op::YSec { j: i } => {
                let is_x = matches!(op, Op::XSec { .. });
                let (nx, ny) = (self.model2.x.len(), self.model2.y.len());
                let (sec, model) = if is_x {
                    let i = i % nx;
                    (self.m2.cross_section_xnode(i), Model1 { nodes: self.model2.y.clone(), vars: (0..ny).map(|j| self.model2.vars[i * ny + j].clone()).collect(), nvars: self.model2.nvars })
                } else {
                    let j = i % ny;
                    (self.m2.cross_section_ynode(j), Model1 { nodes: self.model2.x.clone(), vars: (0..nx).map(|ii| self.model2.vars[ii * ny + j].clone()).collect(), nvars: self.model2.nvars })
                };
                self.stats.count(if is_x { "op.cross_section_xnode" } else { "op.cross_section_ynode" });
                // the section joins the pool of live 1-D meshes (bounded)
                let slot = if self.pool.len() < 6 {
                    self.pool.push(None);
                    self.pool.len() - 1
                } else {
                    1 + (i % 5)
                };
                self.pool[slot] = Some(Live1 { mesh: sec, model });
                self.stats.count("probe.cross_section_joined_pool");
                self.check1(slot, if is_x { "cross_section_xnode" } else { "cross_section_ynode" })?;
                self.check2("cross section")
            }
            Op::VarMat { var } => {
                let var = var % self.model2.nvars;
                let (nx, ny) = (self.model2.x.len(), self.model2.y.len());
                let mat = self.m2.var_as_matrix(var);
                self.stats.count("op.var_as_matrix");
                if mat.rows() != nx || mat.cols() != ny {
                    return vfail("stored-data", "var-as-matrix-shape", self, format!("var_as_matrix({var}) is {} x {}, expected {nx} x {ny}", mat.rows(), mat.cols()));
                }
                for i in 0..nx {
                    for j in 0..ny {
                        if !eq(mat[(i, j)], self.model2.vars[i * ny + j][var]) {
                            return vfail("stored-data", "var-as-matrix", self, format!("var_as_matrix({var})[({i},{j})] = {:e}, stored value {:e}", mat[(i, j)], self.model2.vars[i * ny + j][var]));
                        }
                    }
                }
                Ok(())
            }
            Op::Trap2 { var } | Op::SqTrap2 { var } => {
                let sq = matches!(op, Op::SqTrap2 { .. });
                let var = var % self.model2.nvars;
                let (nx, ny) = (self.model2.x.len(), self.model2.y.len());
                let got = if sq { self.m2.square_trapezium(var) } else { self.m2.trapezium(var) };
                let g = |i: usize, j: usize| {
                    let v = self.model2.vars[i * ny + j][var];
                    if sq {
                        v * v
                    } else {
                        v
                    }
                };
                let mut want = 0.0;
                let mut abs = 0.0;
                for i in 0..nx - 1 {
                    for j in 0..ny - 1 {
                        let w4 = 0.25 * (self.model2.x[i + 1] - self.model2.x[i]) * (self.model2.y[j + 1] - self.model2.y[j]);
                        want += w4 * (g(i, j) + g(i + 1, j) + g(i, j + 1) + g(i + 1, j + 1));
                        abs += w4.abs() * (g(i, j).abs() + g(i + 1, j).abs() + g(i, j + 1).abs() + g(i + 1, j + 1).abs());
                    }
                }
                let nodes_ok = exact_friendly(&self.model2.x, std::iter::empty()) && exact_friendly(&self.model2.y, std::iter::empty());
                let exact = !sq && nodes_ok && self.model2.vars.iter().all(|v| v[var].abs() <= 4096.0 && v[var].fract() == 0.0);
                self.stats.count(if sq { "op.square_trapezium_2d" } else if exact { "op.trapezium_2d_exact" } else { "op.trapezium_2d_rounded" });
                let ok = if exact { got == want } else { (got - want).abs() <= 16.0 * (nx * ny) as f64 * U * abs + 1e-300 };
                if !ok {
                    return vfail("quadrature", if sq { "sqtrap2" } else { "trap2" }, self, format!("2-D {}trapezium(var {var}) = {got:e}, sum of cell contributions = {want:e} (x {:?} y {:?})", if sq { "square_" } else { "" }, self.model2.x, self.model2.y));
                }
                Ok(())
            }
            Op::Swap2 => {
                if let Some((m, model)) = self.other2.take() {
                    let old_m = std::mem::replace(&mut self.m2, m);
                    let old_model = std::mem::replace(&mut self.model2, model);
                    self.other2 = Some((old_m, old_model));
                    self.stats.count("probe.sibling_2d_mesh_swapped_in");
                }
                self.check2("switching to the sibling 2-D mesh")
            }
            Op::BilinCheck2 { var, a, b, c, k } => {
                let var = var % self.model2.nvars;
                let ny = self.model2.y.len();
                let (a, b, c, k) = (*a, *b, *c, *k);
                self.m2.apply(&|x, y| a + b * x + c * y + k * x * y, var);
                for i in 0..self.model2.x.len() {
                    for j in 0..ny {
                        self.model2.vars[i * ny + j][var] = a + b * self.model2.x[i] + c * self.model2.y[j] + k * self.model2.x[i] * self.model2.y[j];
                    }
                }
                let got = self.m2.trapezium(var);
                let (x0, x1) = (self.model2.x[0], *self.model2.x.last().unwrap());
                let (y0, y1) = (self.model2.y[0], *self.model2.y.last().unwrap());
                let (ix, iy) = (0.5 * (x1 - x0) * (x0 + x1), 0.5 * (y1 - y0) * (y0 + y1));
                let terms = [a * (x1 - x0) * (y1 - y0), b * ix * (y1 - y0), c * (x1 - x0) * iy, k * ix * iy];
                let want: f64 = terms.iter().sum();
                let abs: f64 = terms.iter().map(|t| t.abs()).sum::<f64>() + (x1 - x0) * (y1 - y0) * (a.abs() + (b * x0).abs() + (b * x1).abs() + (c * y0).abs() + (c * y1).abs() + (k * x1 * y1).abs() + (k * x0 * y0).abs());
                self.stats.count("op.trapezium_2d_bilinear_closed_form");
                if !((got - want).abs() <= 1e-10 * abs + 1e-300) {
                    return vfail("quadrature", "trap2-bilinear", self, format!("2-D trapezium of the bilinear function {a}+{b}x+{c}y+{k}xy over [{x0:e},{x1:e}]x[{y0:e},{y1:e}] = {got:e}, exact integral {want:e}"));
                }
                self.check2("bilinear fill")
            }
        }
    }

    fn do_output(&mut self, m: usize, path: usize, prec: usize, faults: &[FaultSpec]) -> Verdict {
        let Some(s) = self.pick1(m) else { return Ok(()) };
        let p = self.path(path);
        let (nnodes, nvars) = {
            let l = self.pool[s].as_ref().unwrap();
            (l.model.nodes.len(), l.model.nvars)
        };
        let row_len = 2 * (nvars + 1) + 1;
        let est = nnodes * row_len;
        let est_bytes = nnodes * (nvars + 1) * (prec + 6);
        let armed = self.arm(faults, est, row_len, est_bytes);
        let mut attempt = 0;
        let (r, hard, writes, creates) = loop {
            self.disk.borrow_mut().begin_op(&armed);
            let r = {
                let l = self.pool[s].as_ref().unwrap();
                catch(|| l.mesh.output(&p, prec))
            };
            let (hard, writes, creates) = {
                let d = self.disk.borrow();
                (d.hard_fired(), d.op_writes, d.op_creates)
            };
            self.disk.borrow_mut().end_op();
            // The operation used the simulated disk and died without a hard fault. Before that counts against
            // it: did it also ask the REAL file system about the file (metadata, permissions, Path::exists,
            // links)? Mirror the simulated files onto their real paths, keep mirroring, and repeat the
            // operation under the very same fault plan: what was a mishandled transient fault fails again.
            if attempt == 0 && r.is_err() && !hard && (writes > 0 || creates > 0) && !self.disk.borrow().mirror {
                attempt = 1;
                self.disk.borrow_mut().mirror = true;
                self.materialise();
                self.stats.count("note.seam_partially_bypassed_output_repeated_with_real_mirror");
                continue;
            }
            break (r, hard, writes, creates);
        };
        self.count_fired(est);
        // The code under test never touched the simulated disk and died: it writes through an API
        // the seam does not cover. Give it the real directory and run the operation again; no
        // fault can be injected there, the fault-free oracles still apply (never a false alarm).
        let r = if r.is_err() && writes == 0 && creates == 0 {
            self.make_real_dir();
            self.disk.borrow_mut().files.remove(&p);
            self.stats.count("note.seam_bypassed_output_retried_on_real_fs");
            let l = self.pool[s].as_ref().unwrap();
            let rr = catch(|| l.mesh.output(&p, prec));
            // No fault can be injected into a writer the seam does not see — except through the path: every
            // write to /dev/full fails with ENOSPC. A writer that returns normally from that has lost data
            // without saying so (the one hard fault the real file system offers for free).
            if rr.is_ok() && nnodes > 0 && std::path::Path::new("/dev/full").exists() {
                self.stats.count("fault.real_device_full_for_a_writer_outside_the_seam");
                if catch(|| l.mesh.output("/dev/full", prec)).is_ok() {
                    return vfail("acknowledged-but-wrong", "output-to-full-device", self, format!("output(\"/dev/full\", {prec}) of a {nnodes}-node mesh returned normally although every write to that device fails with ENOSPC (this writer bypasses the simulated disk, so the real device stands in for the injected fault)"));
                }
            }
            rr
        } else {
            if r.is_ok() && writes == 0 && creates == 0 {
                self.disk.borrow_mut().files.remove(&p);
                self.stats.count("note.seam_bypassed_output");
            }
            r
        };
        self.stats.count("op.output");
        self.stats.steps += (writes + creates) as u64;
        if s >= 1 && self.pool.len() > 1 {
            self.stats.count("probe.non_initial_mesh_written_to_disk");
        }
        if let Some(Some(prev)) = self.files.get(path) {
            if prev.acknowledged && prev.content.nodes.len() > nnodes {
                self.stats.count("probe.overwrite_with_shorter_file");
            }
        }
        // &self: the writer is untouched whatever happened
        self.check1(s, "output")?;
        match r {
            Err(msg) => {
                let mm = normalise_panic(&msg);
                if !hard {
                    if creates == 0 && writes == 0 {
                        self.stats.count("note.seam_bypassed_suspected");
                    }
                    return vfail("io-refused", "output-panicked", self, format!("output(precision {prec}) of a {nnodes}-node mesh panicked although no hard I/O fault was injected (transient faults fired: {:?}): {mm}", armed));
                }
                self.stats.count("outcome.output_refused_after_hard_fault");
                self.files[path] = None; // partial file: unacknowledged, never compared with anything
                Ok(())
            }
            Ok(()) => {
                let content = self.pool[s].as_ref().unwrap().model.clone();
                let file = FileModel { content, prec, acknowledged: true };
                // acknowledged: the file must read back (fault-free, fresh 0-node reader)
                let mut fresh = Mesh1D::<f64, f64>::new(Vector::<f64>::empty(), nvars);
                if self.read_bypass {
                    self.materialise();
                }
                self.disk.borrow_mut().begin_op(&[]);
                let rr = catch(|| {
                    fresh.read(&p);
                });
                let (reads, opens) = {
                    let d = self.disk.borrow();
                    (d.op_reads, d.op_opens)
                };
                self.disk.borrow_mut().end_op();
                self.stats.steps += reads as u64;
                let rr = if rr.is_err() && reads == 0 && opens == 0 {
                    // read bypasses the seam: hand it the simulated files on the real file system
                    self.materialise();
                    self.stats.count("note.seam_bypassed_read_retried_on_real_fs");
                    fresh = Mesh1D::<f64, f64>::new(Vector::<f64>::empty(), nvars);
                    catch(|| {
                        fresh.read(&p);
                    })
                } else {
                    rr
                };
                self.stats.count("probe.read_into_zero_node_mesh");
                let class = if hard { "acknowledged-but-wrong" } else { "round-trip" };
                if hard {
                    self.stats.count("outcome.output_ok_despite_hard_fault");
                }
                match rr {
                    Err(msg) => {
                        return vfail(class, "verify-read-panicked", self, format!("output(precision {prec}) of a {nnodes}-node, {nvars}-variable mesh returned normally{}, but reading the file back panicked: {}", if hard { " although a hard write fault had fired" } else { "" }, normalise_panic(&msg)));
                    }
                    Ok(()) => {
                        self.compare_read(&fresh, &file, &format!("output(precision {prec}){} then read into a fresh mesh", if hard { " [hard write fault fired, yet output returned normally]" } else { "" }), class)?;
                    }
                }
                self.files[path] = Some(file);
                self.stats.count("outcome.output_acknowledged");
                Ok(())
            }
        }
    }

    fn do_read(&mut self, into: Option<usize>, fresh_nodes: usize, path: usize, faults: &[FaultSpec], foreign: u8) -> Verdict {
        let Some(Some(file)) = self.files.get(path).cloned() else {
            self.stats.count("skip.read_of_unwritten_or_unacknowledged_file");
            return Ok(());
        };
        let p = self.path(path);
        let nvars = file.content.nvars;
        // target: an existing live mesh with the same number of variables, else a fresh one
        let target_slot = into.and_then(|m| {
            let cands: Vec<usize> = self.pool.iter().enumerate().filter(|(_, s)| s.as_ref().map(|l| l.model.nvars == nvars).unwrap_or(false)).map(|(i, _)| i).collect();
            if cands.is_empty() {
                None
            } else {
                Some(cands[m % cands.len()])
            }
        });
        let armed = self.arm(faults, 4, 0, 0);
        if self.read_bypass {
            self.materialise();
        }
        let before_nodes;
        let r;
        let mut fresh: Option<Mesh1D<f64, f64>> = None;
        if target_slot.is_none() {
            let nodes: Vec<f64> = (0..fresh_nodes).map(|k| k as f64).collect();
            fresh = Some(Mesh1D::<f64, f64>::new(Vector::<f64>::create(nodes), nvars));
        }
        if foreign != 0 {
            // a file that output() did not write, read by the same reader first; outcome ignored
            let good: Vec<u8> = self.disk.borrow().files.get(&p).cloned().unwrap_or_default();
            let text = String::from_utf8_lossy(&good).into_owned();
            let toks: Vec<&str> = text.split_whitespace().collect();
            let half = toks.len() / 2;
            let bad = match foreign {
                1 => format!("{}\n# written by hand\n{}\n", toks[..half].join(" "), toks[half..].join(" ")),
                2 => format!("{} 1.5e", toks[..half].join(" ")),
                3 => format!("x f\n{}", text),
                _ => toks[..(half | 1).min(toks.len())].join(" "),
            };
            let fp = format!("{}/foreign.dat", self.dir);
            self.disk.borrow_mut().files.insert(fp.clone(), bad.into_bytes());
            if self.read_bypass || self.disk.borrow().mirror {
                self.materialise();
            }
            self.disk.borrow_mut().begin_op(&[]);
            let rf = match target_slot {
                Some(s) => {
                    let mesh = &mut self.pool[s].as_mut().unwrap().mesh;
                    catch(|| mesh.read(&fp))
                }
                None => {
                    let mesh = fresh.as_mut().unwrap();
                    catch(|| mesh.read(&fp))
                }
            };
            self.disk.borrow_mut().end_op();
            self.stats.count(if rf.is_err() { "probe.foreign_file_first.reader_panicked" } else { "probe.foreign_file_first.reader_returned" });
        }
        self.disk.borrow_mut().begin_op(&armed);
        match target_slot {
            Some(s) => {
                let l = self.pool[s].as_mut().unwrap();
                before_nodes = l.model.nodes.len();
                let mesh = &mut l.mesh;
                r = catch(|| mesh.read(&p));
            }
            None => {
                let mesh = fresh.as_mut().unwrap();
                before_nodes = fresh_nodes;
                r = catch(|| mesh.read(&p));
            }
        }
        let (mut hard, mut reads, mut opens) = {
            let d = self.disk.borrow();
            (d.hard_fired(), d.op_reads, d.op_opens)
        };
        self.disk.borrow_mut().end_op();
        let mut r = r;
        if r.is_err() && !hard && (opens > 0 || reads > 0) && !self.disk.borrow().mirror {
            // used the simulated disk and died without a hard fault: rule out that it also asked the real
            // file system about the file (see do_output) — mirror, then repeat under the same fault plan
            self.disk.borrow_mut().mirror = true;
            self.materialise();
            self.stats.count("note.seam_partially_bypassed_read_repeated_with_real_mirror");
            self.disk.borrow_mut().begin_op(&armed);
            match target_slot {
                Some(s) => {
                    let model = self.pool[s].as_ref().unwrap().model.clone();
                    self.pool[s] = Some(Live1 { mesh: build1(&model), model });
                    let mesh = &mut self.pool[s].as_mut().unwrap().mesh;
                    r = catch(|| mesh.read(&p));
                }
                None => {
                    let nodes: Vec<f64> = (0..fresh_nodes).map(|k| k as f64).collect();
                    let mut mesh = Mesh1D::<f64, f64>::new(Vector::<f64>::create(nodes), nvars);
                    r = catch(|| mesh.read(&p));
                    fresh = Some(mesh);
                }
            }
            let d = self.disk.borrow();
            hard = d.hard_fired();
            reads = d.op_reads;
            opens = d.op_opens;
            drop(d);
            self.disk.borrow_mut().end_op();
        }
        self.count_fired(4);
        // read bypassed the seam (never opened anything on the simulated disk) and died: put the
        // simulated files on the real file system and let it try again, fault-free.
        let r = if r.is_err() && opens == 0 && reads == 0 {
            self.materialise();
            self.stats.count("note.seam_bypassed_read_retried_on_real_fs");
            match target_slot {
                Some(s) => {
                    // the reader may be half-updated: rebuild it from its model first
                    let model = self.pool[s].as_ref().unwrap().model.clone();
                    self.pool[s] = Some(Live1 { mesh: build1(&model), model });
                    let mesh = &mut self.pool[s].as_mut().unwrap().mesh;
                    catch(|| mesh.read(&p))
                }
                None => {
                    let nodes: Vec<f64> = (0..fresh_nodes).map(|k| k as f64).collect();
                    let mut mesh = Mesh1D::<f64, f64>::new(Vector::<f64>::create(nodes), nvars);
                    let rr = catch(|| mesh.read(&p));
                    fresh = Some(mesh);
                    rr
                }
            }
        } else {
            r
        };
        self.stats.count("op.read");
        self.stats.steps += (reads + opens) as u64;
        let file_nodes = file.content.nodes.len();
        if before_nodes == 0 {
            self.stats.count("probe.read_into_zero_node_mesh");
        } else if before_nodes > file_nodes {
            self.stats.count("probe.read_shrinks_reader");
        } else if before_nodes < file_nodes {
            self.stats.count("probe.read_grows_reader");
        }
        match r {
            Err(msg) => {
                if hard {
                    // round 13: the same reader object tries once more, fault-free. Only a normal return is
                    // judged (a reader that refuses again is discarded as before): a read that returns
                    // normally from an acknowledged, intact file must reproduce it whatever failed earlier.
                    self.disk.borrow_mut().begin_op(&[]);
                    let rr = match target_slot {
                        Some(s) => {
                            let mesh = &mut self.pool[s].as_mut().unwrap().mesh;
                            catch(|| mesh.read(&p))
                        }
                        None => match fresh.as_mut() {
                            Some(mesh) => catch(|| mesh.read(&p)),
                            None => Err(String::new()),
                        },
                    };
                    self.disk.borrow_mut().end_op();
                    if rr.is_ok() {
                        self.stats.count("probe.read_retried_after_hard_fault.returned");
                        let what = format!("second, fault-free read by the same {}-node reader whose first read was refused after a hard fault", before_nodes);
                        match target_slot {
                            Some(s) => {
                                let l = self.pool[s].as_ref().unwrap();
                                self.compare_read(&l.mesh, &file, &what, "wrong-data-after-fault")?;
                            }
                            None => {
                                self.compare_read(fresh.as_ref().unwrap(), &file, &what, "wrong-data-after-fault")?;
                            }
                        }
                    } else {
                        self.stats.count("probe.read_retried_after_hard_fault.refused_again");
                    }
                }
                if let Some(s) = target_slot {
                    // the property does not promise an atomic read: the reader is discarded
                    if s == 0 && self.pool.iter().filter(|x| x.is_some()).count() == 1 {
                        // keep at least one live mesh: rebuild slot 0 from its model
                        let model = self.pool[0].as_ref().unwrap().model.clone();
                        self.pool[0] = Some(Live1 { mesh: build1(&model), model });
                    } else {
                        self.pool[s] = None;
                    }
                }
                if !hard {
                    return vfail("io-refused", "read-panicked", self, format!("read of an acknowledged {file_nodes}-node file panicked although no hard I/O fault was injected (armed: {:?}): {}", armed, normalise_panic(&msg)));
                }
                self.stats.count("outcome.read_refused_after_hard_fault");
                Ok(())
            }
            Ok(()) => {
                let what = format!("read into a {}{}-node mesh{}", if target_slot.is_some() { "live " } else { "fresh " }, before_nodes, if hard { " [a hard read fault fired, yet read returned normally]" } else { "" });
                let class = if hard { "wrong-data-after-fault" } else { "round-trip" };
                match target_slot {
                    Some(s) => {
                        {
                            let l = self.pool[s].as_ref().unwrap();
                            self.compare_read(&l.mesh, &file, &what, class)?;
                        }
                        let snap = World::snapshot(&self.pool[s].as_ref().unwrap().mesh);
                        self.pool[s].as_mut().unwrap().model = snap;
                        self.check1(s, "read")?;
                    }
                    None => {
                        let mesh = fresh.unwrap();
                        self.compare_read(&mesh, &file, &what, class)?;
                        if self.pool.len() < 6 {
                            let model = World::snapshot(&mesh);
                            self.pool.push(Some(Live1 { mesh, model }));
                        }
                    }
                }
                self.stats.count("outcome.read_ok");
                Ok(())
            }
        }
    }
}

fn build1(model: &Model1) -> Mesh1D<f64, f64> {
    let mut mesh = Mesh1D::<f64, f64>::new(Vector::<f64>::create(model.nodes.clone()), model.nvars);
    for (k, v) in model.vars.iter().enumerate() {
        mesh.set_nodes_vars(k, Vector::<f64>::create(v.clone()));
    }
    mesh
}

thread_local! {
    static DIR: String = format!("/tmp/ohsl-simfs-{}-{:?}", std::process::id(), std::thread::current().id()).replace(['(', ')'], "");
}

impl Prop for C19 {
    type Case = Case;

    fn id(&self) -> &'static str {
        "C19"
    }
    fn tag(&self) -> u64 {
        19
    }
    fn runs(&self, tier: Tier) -> u64 {
        match tier {
            Tier::Quick => 200_000,
            Tier::Thorough => 24_000_000,
        }
    }

    fn generate(&self, rng: &mut Rng, tier: Tier, run: u64) -> Case {
        self.gen_case(rng, tier, run)
    }

    fn execute(&self, case: &Case, stats: &mut Stats) -> Verdict {
        let disk = Rc::new(RefCell::new(DiskState::default()));
        verif_seam::fs::install(Box::new(SimDisk { state: disk.clone() }));
        let model1 = Model1 { nodes: case.x1.clone(), vars: vec![vec![0.0; case.nvars1]; case.x1.len()], nvars: case.nvars1 };
        let (nx, ny) = (case.x2.len(), case.y2.len());
        let model2 = Model2 { x: case.x2.clone(), y: case.y2.clone(), vars: vec![vec![0.0; case.nvars2]; nx * ny], nvars: case.nvars2 };
        let mesh1 = Mesh1D::<f64, f64>::new(Vector::<f64>::create(case.x1.clone()), case.nvars1);
        let m2 = Mesh2D::<f64>::new(Vector::<f64>::create(case.x2.clone()), Vector::<f64>::create(case.y2.clone()), case.nvars2);
        let mut ch = Fnv::new();
        ch.str(&format!("{:?}", case));
        stats.seen("nontrivial_cases", ch.finish());
        let dir = DIR.with(|d| d.clone());
        let mirror = |g: &Vec<f64>| -> Vec<f64> {
            let (a, b) = (g[0], g[g.len() - 1]);
            (0..g.len()).map(|k| a + (b - g[g.len() - 1 - k])).collect()
        };
        let (xb, yb) = (mirror(&case.x2), mirror(&case.y2));
        let sib_model = Model2 { x: xb.clone(), y: yb.clone(), vars: vec![vec![0.0; case.nvars2]; nx * ny], nvars: case.nvars2 };
        let sib = Mesh2D::<f64>::new(Vector::<f64>::create(xb), Vector::<f64>::create(yb), case.nvars2);
        let mut w = World { stats, disk: disk.clone(), pool: vec![Some(Live1 { mesh: mesh1, model: model1 })], m2, model2, other2: Some((sib, sib_model)), files: vec![None, None, None], dir, op_index: 0, real_dir_made: false, read_bypass: false };
        let mut verdict = w.check1(0, "construction").and_then(|_| w.check2("construction"));
        let mut prev: Option<&'static str> = None;
        if verdict.is_ok() {
            for (k, op) in case.ops.iter().enumerate() {
                w.op_index = k;
                let name = op_name(op);
                if let Some(p) = prev {
                    let mut h = Fnv::new();
                    h.str(p);
                    h.str(name);
                    w.stats.seen("op_kind_bigrams", h.finish());
                }
                prev = Some(name);
                // a panic escaping a non-persistence operation is a violation of its own
                let r = catch(std::panic::AssertUnwindSafe(|| w.step(op)));
                match r {
                    Ok(Ok(())) => {}
                    Ok(Err(v)) => {
                        verdict = Err(v);
                        break;
                    }
                    Err(msg) => {
                        let mm = normalise_panic(&msg);
                        let text = mm.splitn(3, ':').nth(2).unwrap_or(&mm).trim().to_string();
                        verdict = violation("panic", &format!("mesh:panic:{name}:{text}"), format!("op#{k} {name} panicked: {mm}"));
                        break;
                    }
                }
                w.stats.steps += 1;
            }
        }
        let _ = verif_seam::fs::uninstall();
        if w.real_dir_made {
            let _ = std::fs::remove_dir_all(&w.dir);
        }
        drop(w);
        let d = disk.borrow();
        stats.log.u64(d.log.finish());
        stats.log.u64(d.total_calls);
        stats.add("fs_calls", d.total_calls);
        if d.open_handles() > 0 {
            stats.count("note.file_handle_left_open");
        }
        verdict
    }

    fn shrink(&self, case: &Case) -> Vec<Case> {
        let mut out = vec![];
        let n = case.ops.len();
        // drop halves, quarters, then single operations (from the end)
        for chunk in [n / 2, n / 4, n / 8] {
            if chunk >= 2 {
                let mut start = 0;
                while start < n {
                    let mut c = case.clone();
                    let end = (start + chunk).min(n);
                    c.ops.drain(start..end);
                    out.push(c);
                    start += chunk;
                }
            }
        }
        for k in (0..n).rev() {
            let mut c = case.clone();
            c.ops.remove(k);
            out.push(c);
        }
        // drop faults from persistence operations
        for k in 0..n {
            match &case.ops[k] {
                Op::Output { faults, .. } | Op::Read { faults, .. } if !faults.is_empty() => {
                    let mut c = case.clone();
                    match &mut c.ops[k] {
                        Op::Output { faults, .. } | Op::Read { faults, .. } => faults.clear(),
                        _ => {}
                    }
                    out.push(c);
                    if faults.len() > 1 {
                        for f in 0..faults.len() {
                            let mut c = case.clone();
                            match &mut c.ops[k] {
                                Op::Output { faults, .. } | Op::Read { faults, .. } => {
                                    faults.remove(f);
                                }
                                _ => {}
                            }
                            out.push(c);
                        }
                    }
                }
                _ => {}
            }
        }
        for k in 0..n {
            if let Op::Read { foreign, .. } = &case.ops[k] {
                if *foreign != 0 {
                    let mut c = case.clone();
                    if let Op::Read { foreign, .. } = &mut c.ops[k] {
                        *foreign = 0;
                    }
                    out.push(c);
                }
            }
        }
        // smaller grids / fewer variables
        if case.x1.len() > 2 {
            let mut c = case.clone();
            c.x1.pop();
            out.push(c);
            let mut c = case.clone();
            c.x1.remove(0);
            out.push(c);
        }
        if case.x2.len() > 2 {
            let mut c = case.clone();
            c.x2.pop();
            out.push(c);
        }
        if case.y2.len() > 2 {
            let mut c = case.clone();
            c.y2.pop();
            out.push(c);
        }
        if case.nvars1 > 1 {
            let mut c = case.clone();
            c.nvars1 -= 1;
            out.push(c);
        }
        if case.nvars2 > 1 {
            let mut c = case.clone();
            c.nvars2 -= 1;
            out.push(c);
        }
        // simpler grids
        let simple1: Vec<f64> = (0..case.x1.len()).map(|k| k as f64).collect();
        if simple1 != case.x1 {
            let mut c = case.clone();
            c.x1 = simple1;
            out.push(c);
        }
        out
    }

    fn to_json(&self, case: &Case) -> Value {
        json!({
            "mesh1d": {"nodes_bits": f64s_hex(&case.x1), "nodes": case.x1, "nvars": case.nvars1},
            "mesh2d": {"x_bits": f64s_hex(&case.x2), "y_bits": f64s_hex(&case.y2), "x": case.x2, "y": case.y2, "nvars": case.nvars2},
            "history": case.ops.iter().map(op_to_json).collect::<Vec<_>>(),
            "note": "indices are reduced modulo what exists when the operation executes (mesh slot among live 1-D meshes, node, variable)",
        })
    }

    fn from_json(&self, v: &Value) -> Case {
        Case {
            x1: hex_f64s(&v["mesh1d"]["nodes_bits"]),
            nvars1: usize_of(&v["mesh1d"]["nvars"]),
            x2: hex_f64s(&v["mesh2d"]["x_bits"]),
            y2: hex_f64s(&v["mesh2d"]["y_bits"]),
            nvars2: usize_of(&v["mesh2d"]["nvars"]),
            ops: v["history"].as_array().map(|a| a.iter().map(op_from_json).collect()).unwrap_or_default(),
        }
    }

    fn describe(&self) -> Describe {
        Describe {
            rule: "one case = initial 1-D mesh (2..12 non-uniform dyadic nodes, 1..4 variables), initial 2-D mesh, and a history of 5..40 operations (plus seeding writes) over: per-node set/get, Index/IndexMut, coord/nodes, interpolation at nodes / mid-cell / interior points / points 1e-6*2^j (j=0..21) from a node, always >= 1e-6 from every node, on grids that are 15% far from the origin, 12% deceptively uniform, 10% stretched (cell widths 1/8..12288 side by side), 1-D and 2-D (square) trapezium incl. closed forms for linear and bilinear data, assign/apply, cross-sections (which join the pool of live 1-D meshes), var_as_matrix, output(path, precision) and read(path) into fresh (0, fewer, more nodes) or live meshes. Each persistence operation carries its own fault list placed on its first / last / line-ending / random write or read call. Swarm per run: fault mode (40% none, 35% transient only, 25% hard+transient), operation-family weights, grid coarseness. A reference model mirrors every operation; every access path is compared after every step. Distinct = hash of the whole case; all cases non-trivial.".into(),
            assumptions: vec![
                "transient faults (short write, EINTR on write/read, short read) are legal behaviours of successful OS calls: output/read must succeed and the round trip must hold in full".into(),
                "after a hard fault (create/open refused, ENOSPC/EIO, write returning 0) the call may panic; the partial file is then unacknowledged and never compared. What is flagged: output returning normally and the file then not reading back (acknowledged-but-wrong), read returning normally with wrong data, the writer mesh changing".into(),
                "every acknowledged output is read back at once through the real read() into a fresh 0-node mesh without faults: the on-disk format itself is not assumed".into(),
                "round-trip tolerance 0.5*10^-precision (+2 ulp); exact for integer variables and, with precision >= 9, for dyadic nodes".into(),
                "quadrature compared exactly when nodes are multiples of 2^-9 within +-64 and values integers within +-4096 (all arithmetic exact), otherwise within 8 n u * sum|terms|; interpolation within 16u(|l|+|r|)".into(),
                "not injected: crash/torn file, lost un-synced data, bit flips (the property claims a round trip, not durability or corruption detection)".into(),
            ],
            real_components: vec!["ohsl::Mesh1D (all methods incl. output/read with std's formatting, write_all, read_to_string and parsing)".into(), "ohsl::Mesh2D (all methods except output/output_var)".into()],
            stub_components: vec!["file system: File::create/open/write/read/flush/close -> in-memory disk with fault plan (verif_seam::fs)".into(), "Mesh2D::apply callback: scripted".into()],
            fault_kinds: FaultKind::ALL_NAMES.to_vec(),
            step_meaning: "ohsl has no clock; simulated_steps counts mesh operations plus file-system calls (create/open/write/read)".into(),
        }
    }

    fn required_probes(&self, _tier: Tier) -> Vec<&'static str> {
        vec![
            "read_into_zero_node_mesh", "read_shrinks_reader", "read_grows_reader", "overwrite_with_shorter_file", "non_initial_mesh_written_to_disk", "cross_section_joined_pool",
            "fault_on_first_write", "fault_on_middle_write", "fault_on_last_write", "two_transient_faults_in_one_call", "sibling_2d_mesh_swapped_in", "interpolation_far_from_origin",
        ]
    }
}

fn op_name(op: &Op) -> &'static str {
    match op {
        Op::Set1 { .. } => "set1",
        Op::IdxSet1 { .. } => "idxset1",
        Op::Get1 { .. } => "get1",
        Op::Nodes1 { .. } => "nodes1",
        Op::Interp1 { .. } => "interp1",
        Op::Trap1 { .. } => "trap1",
        Op::LinCheck1 { .. } => "lincheck1",
        Op::Output { .. } => "output",
        Op::Read { .. } => "read",
        Op::Set2 { .. } => "set2",
        Op::IdxSet2 { .. } => "idxset2",
        Op::Get2 { .. } => "get2",
        Op::Nodes2 => "nodes2",
        Op::Assign2 { .. } => "assign2",
        Op::Apply2 { .. } => "apply2",
        Op::ApplyPanic2 { .. } => "apply_panic2",
        Op::XSec { .. } => "xsec",
        Op::YSec { .. } => "ysec",
        Op::VarMat { .. } => "varmat",
        Op::Trap2 { .. } => "trap2",
        Op::SqTrap2 { .. } => "sqtrap2",
        Op::BilinCheck2 { .. } => "bilincheck2",
        Op::Swap2 => "swap2",
    }
}

fn faults_json(f: &[FaultSpec]) -> Value {
    Value::Array(f.iter().map(|s| json!({"pos": s.pos, "frac_bits": f64_hex(s.frac), "kind": s.kind.code(), "amount": s.amount})).collect())
}
fn faults_from(v: &Value) -> Vec<FaultSpec> {
    v.as_array().map(|a| a.iter().map(|s| FaultSpec { pos: usize_of(&s["pos"]) as u8, frac: hex_f64(&s["frac_bits"]), kind: FaultKind::parse(s["kind"].as_str().unwrap_or("")), amount: usize_of(&s["amount"]) }).collect()).unwrap_or_default()
}

fn op_to_json(op: &Op) -> Value {
    match op {
        Op::Set1 { m, node, vals } => json!({"op":"set1","m":m,"node":node,"vals_bits":f64s_hex(vals),"vals":vals}),
        Op::IdxSet1 { m, node, var, val } => json!({"op":"idxset1","m":m,"node":node,"var":var,"val_bits":f64_hex(*val),"val":val}),
        Op::Get1 { m, node } => json!({"op":"get1","m":m,"node":node}),
        Op::Nodes1 { m } => json!({"op":"nodes1","m":m}),
        Op::Interp1 { m, cell, kind, frac } => json!({"op":"interp1","m":m,"cell":cell,"kind":kind,"frac_bits":f64_hex(*frac)}),
        Op::Trap1 { m, var } => json!({"op":"trap1","m":m,"var":var}),
        Op::LinCheck1 { m, var, a, b } => json!({"op":"lincheck1","m":m,"var":var,"a_bits":f64_hex(*a),"b_bits":f64_hex(*b)}),
        Op::Output { m, path, prec, faults } => json!({"op":"output","m":m,"path":path,"precision":prec,"faults":faults_json(faults)}),
        Op::Read { into, fresh_nodes, path, faults, foreign } => json!({"op":"read","into":into,"fresh_nodes":fresh_nodes,"path":path,"faults":faults_json(faults),"foreign_file_first":foreign}),
        Op::Set2 { i, j, vals } => json!({"op":"set2","i":i,"j":j,"vals_bits":f64s_hex(vals),"vals":vals}),
        Op::IdxSet2 { i, j, var, val } => json!({"op":"idxset2","i":i,"j":j,"var":var,"val_bits":f64_hex(*val)}),
        Op::Get2 { i, j } => json!({"op":"get2","i":i,"j":j}),
        Op::Nodes2 => json!({"op":"nodes2"}),
        Op::Assign2 { val } => json!({"op":"assign2","val_bits":f64_hex(*val)}),
        Op::Apply2 { f, var } => json!({"op":"apply2","f":f,"var":var}),
        Op::ApplyPanic2 { f, var, at } => json!({"op":"apply_panic2","f":f,"var":var,"callback_panics_at_invocation":at}),
        Op::XSec { i } => json!({"op":"xsec","i":i}),
        Op::YSec { j } => json!({"op":"ysec","j":j}),
        Op::VarMat { var } => json!({"op":"varmat","var":var}),
        Op::Trap2 { var } => json!({"op":"trap2","var":var}),
        Op::SqTrap2 { var } => json!({"op":"sqtrap2","var":var}),
        Op::Swap2 => json!({"op":"swap2"}),
        Op::BilinCheck2 { var, a, b, c, k } => json!({"op":"bilincheck2","var":var,"a_bits":f64_hex(*a),"b_bits":f64_hex(*b),"c_bits":f64_hex(*c),"k_bits":f64_hex(*k)}),
    }
}

fn op_from_json(v: &Value) -> Op {
    let u = |k: &str| usize_of(&v[k]);
    match v["op"].as_str().unwrap_or("") {
        "set1" => Op::Set1 { m: u("m"), node: u("node"), vals: hex_f64s(&v["vals_bits"]) },
        "idxset1" => Op::IdxSet1 { m: u("m"), node: u("node"), var: u("var"), val: hex_f64(&v["val_bits"]) },
        "get1" => Op::Get1 { m: u("m"), node: u("node") },
        "nodes1" => Op::Nodes1 { m: u("m") },
        "interp1" => Op::Interp1 { m: u("m"), cell: u("cell"), kind: u("kind") as u8, frac: hex_f64(&v["frac_bits"]) },
        "trap1" => Op::Trap1 { m: u("m"), var: u("var") },
        "lincheck1" => Op::LinCheck1 { m: u("m"), var: u("var"), a: hex_f64(&v["a_bits"]), b: hex_f64(&v["b_bits"]) },
        "output" => Op::Output { m: u("m"), path: u("path"), prec: u("precision"), faults: faults_from(&v["faults"]) },
        "read" => Op::Read { into: v["into"].as_u64().map(|x| x as usize), fresh_nodes: u("fresh_nodes"), path: u("path"), faults: faults_from(&v["faults"]), foreign: v["foreign_file_first"].as_u64().unwrap_or(0) as u8 },
        "set2" => Op::Set2 { i: u("i"), j: u("j"), vals: hex_f64s(&v["vals_bits"]) },
        "idxset2" => Op::IdxSet2 { i: u("i"), j: u("j"), var: u("var"), val: hex_f64(&v["val_bits"]) },
        "get2" => Op::Get2 { i: u("i"), j: u("j") },
        "nodes2" => Op::Nodes2,
        "assign2" => Op::Assign2 { val: hex_f64(&v["val_bits"]) },
        "apply2" => Op::Apply2 { f: u("f") as u8, var: u("var") },
        "apply_panic2" => Op::ApplyPanic2 { f: u("f") as u8, var: u("var"), at: u("callback_panics_at_invocation") },
        "xsec" => Op::XSec { i: u("i") },
        "ysec" => Op::YSec { j: u("j") },
        "varmat" => Op::VarMat { var: u("var") },
        "trap2" => Op::Trap2 { var: u("var") },
        "sqtrap2" => Op::SqTrap2 { var: u("var") },
        "swap2" => Op::Swap2,
        _ => Op::BilinCheck2 { var: u("var"), a: hex_f64(&v["a_bits"]), b: hex_f64(&v["b_bits"]), c: hex_f64(&v["c_bits"]), k: hex_f64(&v["k_bits"]) },
    }
}
