//! C18 — finite-difference Jacobian as a call protocol. The simulator *is* the map
//! `f`: it classifies every evaluation point against the forward stencil
//! {x, x + delta e_j}, answers from a script (affine / smooth / arbitrary table,
//! with injected NaN/Inf or a panic at a chosen call) and records the history.

use crate::core::*;
use crate::rng::{Fnv, Rng};
use ohsl::{Cmplx, Mat64, Matrix, Newton, Vec64, Vector};
use serde_json::{json, Value};
use std::cell::RefCell;

#[derive(Clone, Debug, PartialEq)]
pub enum Kind {
    /// x -> Mx + c on dyadic data: every operation exact, J must equal M bit for bit
    Affine { mat: Vec<f64>, c: Vec<f64> },
    /// real: f_i = a_i sin(sum_j b_ij x_j + p_i) + sum_j q_ij x_j^2 ; complex: f_i = sum_j q_ij z_j^2 + l_ij z_j + c_i
    Smooth { a: Vec<f64>, b: Vec<f64>, p: Vec<f64>, q: Vec<f64> },
    /// an arbitrary function on the stencil: base value and one value per perturbed coordinate
    Table { base: Vec<f64>, cols: Vec<Vec<f64>> },
}

#[derive(Clone, Copy, Debug, PartialEq)]
pub enum At {
    Base,
    Col(usize),
}

#[derive(Clone, Debug, PartialEq)]
pub struct Fault {
    pub at: At,
    /// index into the flattened output (component i, or 2i / 2i+1 for complex re / im)
    pub comp: usize,
    /// 0 NaN, 1 +Inf, 2 -Inf
    pub value: u8,
}

#[derive(Clone, Debug)]
pub struct Case {
    pub cmplx: bool,
    pub m: usize,
    pub n: usize,
    /// n reals, or 2n reals (re, im interleaved)
    pub point: Vec<f64>,
    pub delta: f64,
    /// data are dyadic and delta is a power of two: arithmetic is exact
    pub dyadic: bool,
    pub kind: Kind,
    pub faults: Vec<Fault>,
    /// the callback panics at this (0-based) evaluation
    pub panic_at: Option<usize>,
    /// with `panic_at`: the panicking call is caught and the same call is made again at the same point with
    /// a callback that no longer panics — the outcome judged is that of the retry (a failed call must not
    /// leave anything behind)
    pub retry_after_panic: bool,
    /// history before the call under test (the routine must not remember anything):
    /// 0 none; 1 the same routine at the same point with a different map;
    /// 2 a Newton solve (finite-difference Jacobian) that converges onto the point;
    /// 3 the same routine at the same point through the SAME closure object, whose captured
    ///   state makes it a different map for that one call
    pub prelude: u8,
    /// fault: at the stencil point of this column the map returns one component too few (an
    /// inconsistent map). There is no right matrix then: the call must refuse loudly.
    pub short_return: Option<usize>,
    /// the user map itself calls the Jacobian routine (of another small map) during each
    /// evaluation — legal re-entrant use (a Hessian-like computation, a nested solve)
    pub reentrant: bool,
}

pub struct C18;

const PANIC_MARK: &str = "scripted callback panic (simulator)";

fn fault_value(v: u8) -> f64 {
    match v {
        0 => f64::NAN,
        1 => f64::INFINITY,
        _ => f64::NEG_INFINITY,
    }
}

#[inline]
fn ulp_of(x: f64) -> f64 {
    let a = x.abs().max(f64::MIN_POSITIVE);
    a * f64::EPSILON
}

#[derive(Clone, Copy, Debug, PartialEq)]
enum Class {
    Base,
    Col(usize),
    Off,
}

/// Classify an evaluation point against the forward stencil of `case`.
fn classify(case: &Case, x: &[f64]) -> Class {
    let stride = if case.cmplx { 2 } else { 1 };
    if x.len() != case.point.len() {
        return Class::Off;
    }
    let mut perturbed: Option<usize> = None;
    for k in 0..x.len() {
        let p = case.point[k];
        let same = if case.dyadic { x[k].to_bits() == p.to_bits() || x[k] == p } else { (x[k] - p).abs() <= 2.0 * ulp_of(p.abs().max(case.delta)) };
        if same {
            continue;
        }
        // not the base value: may be the perturbed (real part of a) coordinate
        if k % stride != 0 {
            return Class::Off; // an imaginary part moved
        }
        let want = p + case.delta;
        let hit = if case.dyadic { x[k] == want } else { (x[k] - want).abs() <= 2.0 * ulp_of(want.abs().max(case.delta)) };
        if !hit || perturbed.is_some() {
            return Class::Off;
        }
        perturbed = Some(k / stride);
    }
    match perturbed {
        None => Class::Base,
        Some(j) => Class::Col(j),
    }
}

/// The scripted function, evaluated at a (classified) point. Output flattened
/// (m reals, or 2m reals for complex).
fn answer(case: &Case, x: &[f64], class: Class) -> Vec<f64> {
    let (m, n) = (case.m, case.n);
    let mut out = match &case.kind {
        Kind::Affine { mat, c } => {
            if !case.cmplx {
                (0..m).map(|i| {
                    let mut s = c[i];
                    for j in 0..n {
                        s += mat[i * n + j] * x[j];
                    }
                    s
                }).collect::<Vec<f64>>()
            } else {
                let mut o = vec![0.0; 2 * m];
                for i in 0..m {
                    let (mut re, mut im) = (c[2 * i], c[2 * i + 1]);
                    for j in 0..n {
                        let (a, b) = (mat[2 * (i * n + j)], mat[2 * (i * n + j) + 1]);
                        let (xr, xi) = (x[2 * j], x[2 * j + 1]);
                        re += a * xr - b * xi;
                        im += a * xi + b * xr;
                    }
                    o[2 * i] = re;
                    o[2 * i + 1] = im;
                }
                o
            }
        }
        Kind::Smooth { a, b, p, q } => {
            if !case.cmplx {
                (0..m).map(|i| {
                    let mut arg = p[i];
                    let mut quad = 0.0;
                    for j in 0..n {
                        arg += b[i * n + j] * x[j];
                        quad += q[i * n + j] * x[j] * x[j];
                    }
                    a[i] * arg.sin() + quad
                }).collect()
            } else {
                // f_i = sum_j q_ij z_j^2 + l_ij z_j + c_i ; q real (q), l real (b), c = (a_i, p_i)
                let mut o = vec![0.0; 2 * m];
                for i in 0..m {
                    let (mut re, mut im) = (a[i], p[i]);
                    for j in 0..n {
                        let (xr, xi) = (x[2 * j], x[2 * j + 1]);
                        let (sr, si) = (xr * xr - xi * xi, 2.0 * xr * xi);
                        re += q[i * n + j] * sr + b[i * n + j] * xr;
                        im += q[i * n + j] * si + b[i * n + j] * xi;
                    }
                    o[2 * i] = re;
                    o[2 * i + 1] = im;
                }
                o
            }
        }
        Kind::Table { base, cols } => match class {
            Class::Base => base.clone(),
            Class::Col(j) => cols[j].clone(),
            // the table is only defined on the forward stencil
            Class::Off => vec![f64::NAN; base.len()],
        },
    };
    if let (Some(j), Class::Col(c)) = (case.short_return, class) {
        if j == c && case.m >= 2 {
            let w = if case.cmplx { 2 } else { 1 };
            out.truncate((case.m - 1) * w);
        }
    }
    for f in &case.faults {
        let here = match (f.at, class) {
            (At::Base, Class::Base) => true,
            (At::Col(a), Class::Col(b)) => a == b,
            _ => false,
        };
        if here && f.comp < out.len() {
            out[f.comp] = fault_value(f.value);
        }
    }
    out
}

#[derive(Default)]
struct History {
    calls: usize,
    classes: Vec<Class>,
    points_hash: Fnv,
}

struct Outcome {
    result: Result<(usize, usize, Vec<f64>), String>,
    hist: History,
}

/// History before the call under test; its results are discarded, its panics ignored.
fn run_prelude(case: &Case) {
    let n = case.n;
    match (case.prelude, case.cmplx) {
        (1, false) => {
            let g = |x: Vec64| -> Vec64 { Vector::<f64>::create((0..case.m).map(|i| 7.0 + i as f64 + x.vec.iter().sum::<f64>() * 0.0).collect()) };
            let _ = catch(|| Mat64::jacobian(Vector::<f64>::create(case.point.clone()), &g, case.delta));
        }
        (1, true) => {
            let g = |z: Vector<Cmplx>| -> Vector<Cmplx> { Vector::<Cmplx>::create((0..case.m).map(|i| Cmplx::new(7.0 + i as f64, z.vec.len() as f64)).collect()) };
            let p = Vector::<Cmplx>::create(case.point.chunks(2).map(|p| Cmplx::new(p[0], p[1])).collect());
            let _ = catch(|| Matrix::<Cmplx>::jacobian_cmplx(p, &g, case.delta));
        }
        (2, false) => {
            let target = case.point.clone();
            let g = |x: Vec64| -> Vec64 { Vector::<f64>::create(x.vec.iter().zip(target.iter()).map(|(a, b)| a - b).collect()) };
            let mut nw = Newton::<Vec64>::new(Vector::<f64>::create(case.point.iter().map(|v| v + 0.5).collect()));
            nw.delta(case.delta);
            nw.iterations(20);
            let _ = catch(|| nw.solve(&g));
        }
        (2, true) => {
            let target = case.point.clone();
            let g = |z: Vector<Cmplx>| -> Vector<Cmplx> { Vector::<Cmplx>::create(z.vec.iter().enumerate().map(|(k, c)| Cmplx::new(c.real - target[2 * k], c.imag - target[2 * k + 1])).collect()) };
            let mut nw = Newton::<Vector<Cmplx>>::new(Vector::<Cmplx>::create((0..n).map(|k| Cmplx::new(case.point[2 * k] + 0.5, case.point[2 * k + 1])).collect()));
            nw.delta(case.delta);
            nw.iterations(20);
            let _ = catch(|| nw.solve(&g));
        }
        _ => {}
    }
}

/// Run the real Jacobian routine against the scripted environment.
fn run_real(case: &Case) -> Outcome {
    run_prelude(case);
    let hist = RefCell::new(History::default());
    let decoy = std::cell::Cell::new(false);
    let armed = std::cell::Cell::new(true);
    let retry = case.retry_after_panic && case.panic_at.is_some();
    let res = if !case.cmplx {
        let f = |x: Vec64| -> Vec64 {
            if decoy.get() {
                return Vector::<f64>::create((0..case.m).map(|i| 7.0 + i as f64 + 0.0 * x.vec.len() as f64).collect());
            }
            let class = classify(case, &x.vec);
            let idx = {
                let mut h = hist.borrow_mut();
                let idx = h.calls;
                h.calls += 1;
                h.classes.push(class);
                for v in &x.vec {
                    h.points_hash.f64(*v);
                }
                idx
            };
            if armed.get() && case.panic_at == Some(idx) {
                panic!("{}", PANIC_MARK);
            }
            if case.reentrant {
                let inner = |y: Vec64| -> Vec64 { Vector::<f64>::create(y.vec.iter().map(|v| 2.0 * v + 1.0).collect()) };
                let at = Vector::<f64>::create((0..case.n).map(|k| 100.0 + k as f64).collect());
                let _ = Mat64::jacobian(at, &inner, case.delta);
            }
            Vector::<f64>::create(answer(case, &x.vec, class))
        };
        let point = Vector::<f64>::create(case.point.clone());
        if case.prelude == 3 {
            decoy.set(true);
            let _ = catch(|| Mat64::jacobian(point.clone(), &f, case.delta));
            decoy.set(false);
        }
        if retry {
            let _ = catch(|| Mat64::jacobian(point.clone(), &f, case.delta));
            armed.set(false);
            *hist.borrow_mut() = History::default();
        }
        catch(|| {
            let j: Mat64 = Mat64::jacobian(point, &f, case.delta);
            let (r, c) = (j.rows(), j.cols());
            let mut flat = Vec::with_capacity(r * c);
            if j.numel() == r * c {
                for i in 0..r {
                    for k in 0..c {
                        flat.push(j[(i, k)]);
                    }
                }
            }
            (r, c, flat)
        })
    } else {
        let f = |z: Vector<Cmplx>| -> Vector<Cmplx> {
            if decoy.get() {
                return Vector::<Cmplx>::create((0..case.m).map(|i| Cmplx::new(7.0 + i as f64, z.vec.len() as f64)).collect());
            }
            let flat: Vec<f64> = z.vec.iter().flat_map(|c| [c.real, c.imag]).collect();
            let class = classify(case, &flat);
            let idx = {
                let mut h = hist.borrow_mut();
                let idx = h.calls;
                h.calls += 1;
                h.classes.push(class);
                for v in &flat {
                    h.points_hash.f64(*v);
                }
                idx
            };
            if armed.get() && case.panic_at == Some(idx) {
                panic!("{}", PANIC_MARK);
            }
            if case.reentrant {
                let inner = |y: Vector<Cmplx>| -> Vector<Cmplx> { Vector::<Cmplx>::create(y.vec.iter().map(|c| Cmplx::new(2.0 * c.real + 1.0, 2.0 * c.imag)).collect()) };
                let at = Vector::<Cmplx>::create((0..case.n).map(|k| Cmplx::new(100.0 + k as f64, -7.0)).collect());
                let _ = Matrix::<Cmplx>::jacobian_cmplx(at, &inner, case.delta);
            }
            let a = answer(case, &flat, class);
            Vector::<Cmplx>::create(a.chunks(2).map(|p| Cmplx::new(p[0], p[1])).collect())
        };
        let point = Vector::<Cmplx>::create(case.point.chunks(2).map(|p| Cmplx::new(p[0], p[1])).collect());
        if case.prelude == 3 {
            decoy.set(true);
            let _ = catch(|| Matrix::<Cmplx>::jacobian_cmplx(point.clone(), &f, case.delta));
            decoy.set(false);
        }
        if retry {
            let _ = catch(|| Matrix::<Cmplx>::jacobian_cmplx(point.clone(), &f, case.delta));
            armed.set(false);
            *hist.borrow_mut() = History::default();
        }
        catch(|| {
            let j: Matrix<Cmplx> = Matrix::<Cmplx>::jacobian_cmplx(point, &f, case.delta);
            let (r, c) = (j.rows(), j.cols());
            let mut flat = Vec::with_capacity(2 * r * c);
            if j.numel() == r * c {
                for i in 0..r {
                    for k in 0..c {
                        flat.push(j[(i, k)].real);
                        flat.push(j[(i, k)].imag);
                    }
                }
            }
            (r, c, flat)
        })
    };
    Outcome { result: res, hist: hist.into_inner() }
}

/// (expected value, absolute tolerance) of entry (i, j) [complex: re/im part `part`]
/// in the absence of faults.
fn expected(case: &Case, i: usize, j: usize, part: usize) -> (f64, f64) {
    let (n, d) = (case.n, case.delta);
    let u = f64::EPSILON / 2.0;
    match &case.kind {
        Kind::Affine { mat, .. } => {
            let e = if case.cmplx { mat[2 * (i * n + j) + part] } else { mat[i * n + j] };
            if case.dyadic {
                (e, 0.0)
            } else {
                // |f| <= sum|M||x| + |c|; two roundings of f, then / delta
                let scale = affine_scale(case, i);
                (e, 16.0 * u * scale / d + 8.0 * u * e.abs())
            }
        }
        Kind::Smooth { a, b, p, q } => {
            if !case.cmplx {
                let mut arg = p[i];
                let mut scale = a[i].abs();
                let mut argabs = p[i].abs();
                for k in 0..n {
                    arg += b[i * n + k] * case.point[k];
                    argabs += (b[i * n + k] * case.point[k]).abs() + b[i * n + k].abs() * d;
                    scale += q[i * n + k].abs() * (case.point[k].abs() + d).powi(2);
                }
                scale += a[i].abs() * argabs; // argument rounding amplified by |a cos|
                let e = a[i] * b[i * n + j] * arg.cos() + 2.0 * q[i * n + j] * case.point[j];
                let m2 = a[i].abs() * b[i * n + j] * b[i * n + j] + 2.0 * q[i * n + j].abs();
                (e, 0.5 * m2 * d * 1.01 + 32.0 * u * scale / d + 8.0 * u * e.abs() + 1e-300)
            } else {
                let (xr, xi) = (case.point[2 * j], case.point[2 * j + 1]);
                let e = if part == 0 { 2.0 * q[i * n + j] * xr + b[i * n + j] } else { 2.0 * q[i * n + j] * xi };
                let mut scale = a[i].abs() + p[i].abs();
                for k in 0..n {
                    let r = (case.point[2 * k].abs() + d).hypot(case.point[2 * k + 1]);
                    scale += q[i * n + k].abs() * r * r * 2.0 + b[i * n + k].abs() * r;
                }
                (e, q[i * n + j].abs() * d * 1.01 + 32.0 * u * scale / d + 8.0 * u * e.abs() + 1e-300)
            }
        }
        Kind::Table { base, cols } => {
            let (cv, bv) = if case.cmplx { (cols[j][2 * i + part], base[2 * i + part]) } else { (cols[j][i], base[i]) };
            let e = (cv - bv) / d;
            if case.dyadic {
                (e, 0.0)
            } else {
                (e, 8.0 * u * e.abs() + 4.0 * u * (cv.abs() + bv.abs()) / d + 1e-300)
            }
        }
    }
}

fn affine_scale(case: &Case, i: usize) -> f64 {
    if let Kind::Affine { mat, c } = &case.kind {
        let n = case.n;
        if case.cmplx {
            let mut s = c[2 * i].abs() + c[2 * i + 1].abs();
            for k in 0..n {
                let r = (case.point[2 * k].abs() + case.delta) + case.point[2 * k + 1].abs();
                s += (mat[2 * (i * n + k)].abs() + mat[2 * (i * n + k) + 1].abs()) * r;
            }
            s
        } else {
            let mut s = c[i].abs();
            for k in 0..n {
                s += mat[i * n + k].abs() * (case.point[k].abs() + case.delta);
            }
            s
        }
    } else {
        1.0
    }
}

fn dy(rng: &mut Rng, lim: i64, den: f64) -> f64 {
    rng.range(-lim, lim) as f64 / den
}

impl C18 {
    fn gen_kind(&self, rng: &mut Rng, which: u64, cmplx: bool, m: usize, n: usize, dyadic: bool) -> Kind {
        let w = if cmplx { 2 } else { 1 };
        match which {
            0 => {
                // 15 % of the exact affine maps are scaled by 2^s, s in -900..1012 (half of them within 2^64 of overflow): every operation stays exact
                // (powers of two), but any intermediate such as f * (1/delta) may overflow or underflow
                let scale = if dyadic && rng.chance(0.15) { (2.0f64).powi(if rng.chance(0.5) { rng.range(960, 1012) } else { rng.range(-900, 960) } as i32) } else { 1.0 };
                let mat: Vec<f64> = (0..m * n * w).map(|_| if dyadic { dy(rng, 32, 4.0) * scale } else { rng.uniform(-8.0, 8.0) }).collect();
                let c: Vec<f64> = (0..m * w).map(|_| if dyadic { dy(rng, 64, 8.0) * scale } else { rng.uniform(-8.0, 8.0) }).collect();
                Kind::Affine { mat, c }
            }
            1 => {
                let base: Vec<f64> = (0..m * w).map(|_| if dyadic { dy(rng, 1 << 12, 64.0) } else { rng.uniform(-100.0, 100.0) }).collect();
                let mut cols: Vec<Vec<f64>> = (0..n).map(|_| (0..m * w).map(|_| if dyadic { dy(rng, 1 << 12, 64.0) } else { rng.uniform(-100.0, 100.0) }).collect()).collect();
                if dyadic {
                    // some columns move a component by only a few ulp (or not at all): the quotient is then
                    // t ulp / delta exactly — no threshold may round it to zero
                    for col in cols.iter_mut() {
                        for (i, v) in col.iter_mut().enumerate() {
                            if rng.chance(0.1) {
                                let b = base[i];
                                let ulp = if b == 0.0 { f64::MIN_POSITIVE } else { f64::from_bits(b.abs().to_bits() + 1) - b.abs() };
                                *v = b + *rng.pick(&[0.0, 1.0, -1.0, 2.0, 5.0]) * ulp;
                            }
                        }
                    }
                }
                Kind::Table { base, cols }
            }
            _ => {
                let a: Vec<f64> = (0..m).map(|_| rng.uniform(-3.0, 3.0)).collect();
                let b: Vec<f64> = (0..m * n).map(|_| rng.uniform(-2.0, 2.0)).collect();
                let p: Vec<f64> = (0..m).map(|_| rng.uniform(-3.0, 3.0)).collect();
                let q: Vec<f64> = (0..m * n).map(|_| rng.uniform(-1.0, 1.0)).collect();
                Kind::Smooth { a, b, p, q }
            }
        }
    }
}

impl Prop for C18 {
    type Case = Case;

    fn id(&self) -> &'static str {
        "C18"
    }
    fn tag(&self) -> u64 {
        18
    }
    fn runs(&self, tier: Tier) -> u64 {
        match tier {
            Tier::Quick => 1_000_000,
            Tier::Thorough => 120_000_000,
        }
    }

    fn generate(&self, rng: &mut Rng, tier: Tier, run: u64) -> Case {
        let max_dim = if rng.chance(if tier == Tier::Thorough { 0.1 } else { 0.03 }) { 12 } else { 6 };
        // the first 36*8 runs enumerate every shape with exact affine data, real and complex
        let grid = 36 * 8;
        let (m, n, cmplx, which, dyadic_forced) = if run < grid {
            let s = run % 36;
            let pass = run / 36;
            ((s / 6) as usize + 1, (s % 6) as usize + 1, pass % 2 == 1, if pass < 4 { 0 } else { 1 }, true)
        } else if rng.chance(0.0005) {
            // far beyond the 6 x 6 the property lists by name (it says "for every m and n"): shapes up to
            // 320 x 320, where a rewrite may switch to tiles, blocks or another layout. Exact kinds only
            // (affine-dyadic stays exact: 41 significant bits at n = 200; table).
            let big = |rng: &mut Rng| match rng.below(10) { 0..=2 => rng.urange(1, 8), 3..=7 => rng.urange(20, 200), _ => rng.urange(201, 320) };
            let (m, n) = (big(rng), big(rng));
            (m, n, rng.chance(0.4), rng.below(2), false)
        } else {
            (rng.urange(1, max_dim), rng.urange(1, max_dim), rng.chance(0.4), rng.below(3), false)
        };
        let delta_dyadic = dyadic_forced || rng.chance(0.7);
        let delta = if delta_dyadic { (2.0f64).powi(-(rng.range(4, 26) as i32)) } else { 1.0e-8 };
        let data_dyadic = dyadic_forced || rng.chance(0.75);
        let dyadic = delta_dyadic && data_dyadic && which != 2;
        let w = if cmplx { 2 } else { 1 };
        let point: Vec<f64> = (0..n * w).map(|_| if dyadic { dy(rng, 256, 64.0) } else { rng.uniform(-4.0, 4.0) }).collect();
        let mut krng = rng.fork(1);
        let kind = self.gen_kind(&mut krng, which, cmplx, m, n, dyadic);
        let mut frng = rng.fork(2);
        let mut faults = vec![];
        let mut panic_at = None;
        if !dyadic_forced {
            if frng.chance(0.3) {
                for _ in 0..frng.urange(1, 2) {
                    let at = if frng.chance(0.3) { At::Base } else { At::Col(frng.usize_below(n)) };
                    faults.push(Fault { at, comp: frng.usize_below(m * w), value: frng.below(3) as u8 });
                }
            }
            if frng.chance(0.05) {
                panic_at = Some(frng.usize_below(n + 1));
            }
        }
        let prelude = if dyadic_forced { 0 } else { match frng.below(20) { 0 | 1 => 1, 2..=4 => 2, 5..=7 => 3, _ => 0 } };
        let reentrant = !dyadic_forced && frng.chance(0.1);
        let short_return = if !dyadic_forced && m >= 2 && faults.is_empty() && panic_at.is_none() && frng.chance(0.04) { Some(frng.usize_below(n)) } else { None };
        let retry_after_panic = panic_at.is_some() && frng.chance(0.5);
        Case { cmplx, m, n, point, delta, dyadic, kind, faults, panic_at, retry_after_panic, prelude, reentrant, short_return }
    }

    fn execute(&self, case: &Case, stats: &mut Stats) -> Verdict {
        let (m, n) = (case.m, case.n);
        let w = if case.cmplx { 2 } else { 1 };
        let fname = if case.cmplx { "jacobian_cmplx" } else { "jacobian" };
        let out = run_real(case);

        // ---- reach
        let mut ch = Fnv::new();
        ch.u64(m as u64);
        ch.u64(n as u64);
        ch.u64(case.cmplx as u64);
        ch.u64(case.prelude as u64 + 16 * case.reentrant as u64);
        ch.f64(case.delta);
        for x in &case.point {
            ch.f64(*x);
        }
        ch.u64(match &case.kind {
            Kind::Affine { mat, .. } => mat.iter().fold(1u64, |h, x| h.wrapping_mul(31).wrapping_add(x.to_bits())),
            Kind::Smooth { a, .. } => a.iter().fold(2u64, |h, x| h.wrapping_mul(31).wrapping_add(x.to_bits())),
            Kind::Table { base, .. } => base.iter().fold(3u64, |h, x| h.wrapping_mul(31).wrapping_add(x.to_bits())),
        });
        stats.seen("nontrivial_cases", ch.finish());
        stats.seen("shapes", (m as u64) << 8 | n as u64 | (case.cmplx as u64) << 16);
        stats.steps += out.hist.calls as u64;
        stats.add("callback_invocations", out.hist.calls as u64);
        stats.log.u64(out.hist.points_hash.finish());
        stats.log.u64(out.hist.calls as u64);
        if m * n >= 4096 {
            stats.count("probe.large_shape_4096_entries_or_more");
        }
        stats.count(if m < n { "probe.m_lt_n" } else if m > n { "probe.m_gt_n" } else { "probe.m_eq_n" });
        stats.count(if case.cmplx { "probe.complex" } else { "probe.real" });
        stats.count(match &case.kind {
            Kind::Affine { .. } => "probe.kind_affine",
            Kind::Smooth { .. } => "probe.kind_smooth",
            Kind::Table { .. } => "probe.kind_table",
        });
        if case.reentrant {
            stats.count("probe.reentrant_callback");
        }
        match case.prelude {
            1 => stats.count("probe.history_previous_jacobian_same_point"),
            2 => stats.count("probe.history_newton_solve_onto_point"),
            3 => stats.count("probe.history_same_closure_other_map"),
            _ => {}
        }
        if case.dyadic {
            stats.count("probe.exact_arithmetic");
        } else {
            stats.count("probe.rounded_arithmetic");
        }
        for f in &case.faults {
            stats.count(match (f.at, f.value) {
                (At::Base, 0) => "fault.callback_nan_at_base",
                (At::Base, _) => "fault.callback_inf_at_base",
                (At::Col(_), 0) => "fault.callback_nan_at_column",
                (At::Col(_), _) => "fault.callback_inf_at_column",
            });
        }

        // ---- scripted callback panic must propagate
        if case.retry_after_panic && case.panic_at.is_some() {
            stats.count("probe.retry_after_callback_panic");
        }
        if let Some(at) = case.panic_at.filter(|_| !case.retry_after_panic) {
            if at < out.hist.calls || out.result.is_err() {
                stats.count("fault.callback_panic");
            }
            return match &out.result {
                Err(msg) if msg.contains(PANIC_MARK) => Ok(()),
                Err(msg) => {
                    let mm = normalise_panic(msg);
                    violation("panic", &panic_key(fname, &mm), format!("{fname} m={m} n={n}: panicked before/with something other than the scripted callback panic: {mm}"))
                }
                Ok(_) if out.hist.calls <= at => Ok(()), // the scripted call index was never reached (fewer evaluations): nothing to observe
                Ok(_) => violation("callback-panic-swallowed", &format!("{fname}:panic-swallowed"), format!("{fname} m={m} n={n}: callback panicked at evaluation {at} but the call returned normally")),
            };
        }

        // ---- an inconsistent map (one component missing at one stencil point) must be refused loudly
        if let Some(j) = case.short_return {
            if m >= 2 && out.hist.classes.iter().any(|c| *c == Class::Col(j)) {
                stats.count("fault.callback_returns_too_few_components");
                return match &out.result {
                    Err(_) => Ok(()),
                    Ok(_) => violation("fault-masked", &format!("{fname}:short-return"), format!("{fname} m={m} n={n}: the map returned {} instead of {m} components at the stencil point of column {j}, yet the call returned a matrix", m - 1)),
                };
            }
        }

        // ---- no panic of its own
        let (rows, cols, flat) = match out.result {
            Ok(t) => t,
            // a map that returned NaN/Inf (injected) may be refused loudly; what must not happen is a wrong matrix
            Err(_) if !case.faults.is_empty() && out.hist.calls > 0 => {
                stats.count("outcome.refused_loudly_after_nonfinite_callback_value");
                return Ok(());
            }
            Err(msg) => {
                let mm = normalise_panic(&msg);
                return violation("panic", &panic_key(fname, &mm), format!("{fname} of a map R^{n} -> R^{m} (delta={:e}) panicked: {mm}", case.delta));
            }
        };
        for x in &flat {
            stats.log.f64(*x);
        }

        // ---- shape
        if rows != m || cols != n || flat.len() != m * n * w {
            return violation("shape", &format!("{fname}:shape"), format!("{fname} of a map R^{n} -> R^{m} returned a {rows} x {cols} matrix ({} stored entries)", flat.len() / w));
        }

        // ---- protocol reach (recorded; the value oracle below decides)
        let base_calls = out.hist.classes.iter().filter(|c| **c == Class::Base).count();
        let off = out.hist.classes.iter().filter(|c| **c == Class::Off).count();
        if off > 0 {
            stats.count("note.off_stencil_evaluations");
        }
        if out.hist.calls > n + 1 {
            stats.count("note.more_than_n_plus_1_evaluations");
        }
        if base_calls == 0 {
            stats.count("note.no_base_evaluation");
        }

        // ---- entries
        for i in 0..m {
            for j in 0..n {
                for part in 0..w {
                    let got = flat[(i * n + j) * w + part];
                    let (e, tol) = expected(case, i, j, part);
                    // which faults reach entry (i, j)? a fault in column j's evaluation or in the base evaluation, in component i
                    let tainted = case.faults.iter().any(|f| {
                        let comp_i = f.comp / w;
                        comp_i == i && (f.at == At::Base || f.at == At::Col(j))
                    });
                    if tainted {
                        // real: exactly the faulted part must be non-finite. complex: the division by
                        // (delta + 0i) mixes re and im of a non-finite number, so either part may be.
                        let own_part_faulted = case.faults.iter().any(|f| f.comp / w == i && (f.at == At::Base || f.at == At::Col(j)) && (w == 1 || f.comp % w == part));
                        let any_nonfinite = (0..w).any(|p2| !flat[(i * n + j) * w + p2].is_finite());
                        if !any_nonfinite {
                            return violation(
                                "fault-masked",
                                &format!("{fname}:fault-masked"),
                                format!("{fname} m={m} n={n}: the callback returned a non-finite value for component {i} on the stencil point of column {j}, yet entry ({i},{j}) = {got:e} is finite"),
                            );
                        }
                        if w == 1 && own_part_faulted && got.is_finite() {
                            return violation("fault-masked", &format!("{fname}:fault-masked"), format!("{fname} m={m} n={n}: entry ({i},{j}) finite despite fault"));
                        }
                        stats.count("probe.fault_reached_entry");
                        continue;
                    }
                    let ok = if tol == 0.0 { got == e } else { (got - e).abs() <= tol };
                    if !ok {
                        let class = if !case.faults.is_empty() { "fault-containment" } else { "value" };
                        return violation(
                            class,
                            &format!("{fname}:{class}"),
                            format!(
                                "{fname} m={m} n={n} delta={:e} kind={}: entry ({i},{j}){} = {got:e}, forward difference quotient = {e:e} (tolerance {tol:e}); evaluations={} off-stencil={} faults={:?}",
                                case.delta,
                                kind_name(&case.kind),
                                if w == 2 { if part == 0 { ".re" } else { ".im" } } else { "" },
                                out.hist.calls,
                                off,
                                case.faults
                            ),
                        );
                    }
                }
            }
        }
        Ok(())
    }

    fn shrink(&self, case: &Case) -> Vec<Case> {
        let mut out = vec![];
        if case.prelude != 0 {
            let mut c = case.clone();
            c.prelude = 0;
            out.push(c);
        }
        if case.reentrant {
            let mut c = case.clone();
            c.reentrant = false;
            out.push(c);
        }
        if case.short_return.is_some() {
            let mut c = case.clone();
            c.short_return = None;
            out.push(c);
        }
        if case.panic_at.is_some() && !case.faults.is_empty() {
            let mut c = case.clone();
            c.faults.clear();
            out.push(c);
        }
        if !case.faults.is_empty() {
            let mut c = case.clone();
            c.faults.clear();
            out.push(c);
            if case.faults.len() > 1 {
                for k in 0..case.faults.len() {
                    let mut c = case.clone();
                    c.faults.remove(k);
                    out.push(c);
                }
            }
        }
        // drop a row (component)
        let w = if case.cmplx { 2 } else { 1 };
        if case.m > 1 {
            for i in (0..case.m).rev() {
                if let Some(c) = drop_row(case, i, w) {
                    out.push(c);
                }
            }
        }
        // drop a column (variable)
        if case.n > 1 {
            for j in (0..case.n).rev() {
                if let Some(c) = drop_col(case, j, w) {
                    out.push(c);
                }
            }
        }
        // simpler point
        if case.point.iter().any(|x| *x != 0.0) {
            let mut c = case.clone();
            c.point = vec![0.0; case.point.len()];
            out.push(c);
        }
        // simpler delta
        if case.delta != 0.25 {
            let mut c = case.clone();
            c.delta = 0.25;
            out.push(c);
        }
        // real instead of complex is a different routine: not attempted
        out
    }

    fn to_json(&self, case: &Case) -> Value {
        let kind = match &case.kind {
            Kind::Affine { mat, c } => json!({"type":"affine","mat_bits":f64s_hex(mat),"c_bits":f64s_hex(c),"mat":mat,"c":c}),
            Kind::Smooth { a, b, p, q } => json!({"type":"smooth","a_bits":f64s_hex(a),"b_bits":f64s_hex(b),"p_bits":f64s_hex(p),"q_bits":f64s_hex(q)}),
            Kind::Table { base, cols } => json!({"type":"table","base_bits":f64s_hex(base),"cols_bits":cols.iter().map(|c| f64s_hex(c)).collect::<Vec<_>>(),"base":base,"cols":cols}),
        };
        json!({
            "routine": if case.cmplx { "Matrix::<Cmplx>::jacobian_cmplx" } else { "Mat64::jacobian" },
            "cmplx": case.cmplx, "m": case.m, "n": case.n,
            "point_bits": f64s_hex(&case.point), "point": case.point,
            "delta_bits": f64_hex(case.delta), "delta": case.delta,
            "dyadic": case.dyadic,
            "environment": kind,
            "faults": case.faults.iter().map(|f| json!({
                "at": match f.at { At::Base => json!("base"), At::Col(j) => json!(j) },
                "component": f.comp,
                "value": match f.value { 0 => "NaN", 1 => "+Inf", _ => "-Inf" },
            })).collect::<Vec<_>>(),
            "callback_panics_at_evaluation": case.panic_at,
            "then_same_call_retried_without_panic": case.retry_after_panic,
            "history_before_call": match case.prelude { 3 => "same routine, same point, same closure object acting as a different map", 1 => "same routine, same point, different map", 2 => "Newton solve (finite-difference Jacobian) of x - point = 0 converging onto the point", _ => "none" },
            "prelude": case.prelude,
            "callback_calls_the_jacobian_routine_itself": case.reentrant,
            "fault_one_component_missing_at_column": case.short_return,
        })
    }

    fn from_json(&self, v: &Value) -> Case {
        let e = &v["environment"];
        let kind = match e["type"].as_str().unwrap_or("affine") {
            "affine" => Kind::Affine { mat: hex_f64s(&e["mat_bits"]), c: hex_f64s(&e["c_bits"]) },
            "smooth" => Kind::Smooth { a: hex_f64s(&e["a_bits"]), b: hex_f64s(&e["b_bits"]), p: hex_f64s(&e["p_bits"]), q: hex_f64s(&e["q_bits"]) },
            _ => Kind::Table { base: hex_f64s(&e["base_bits"]), cols: e["cols_bits"].as_array().unwrap().iter().map(hex_f64s).collect() },
        };
        Case {
            cmplx: v["cmplx"].as_bool().unwrap_or(false),
            m: usize_of(&v["m"]),
            n: usize_of(&v["n"]),
            point: hex_f64s(&v["point_bits"]),
            delta: hex_f64(&v["delta_bits"]),
            dyadic: v["dyadic"].as_bool().unwrap_or(false),
            kind,
            faults: v["faults"].as_array().map(|a| a.iter().map(|f| Fault {
                at: if f["at"].is_string() { At::Base } else { At::Col(usize_of(&f["at"])) },
                comp: usize_of(&f["component"]),
                value: match f["value"].as_str().unwrap_or("NaN") { "NaN" => 0, "+Inf" => 1, _ => 2 },
            }).collect()).unwrap_or_default(),
            panic_at: v["callback_panics_at_evaluation"].as_u64().map(|x| x as usize),
            retry_after_panic: v["then_same_call_retried_without_panic"].as_bool().unwrap_or(false),
            prelude: v["prelude"].as_u64().unwrap_or(0) as u8,
            reentrant: v["callback_calls_the_jacobian_routine_itself"].as_bool().unwrap_or(false),
            short_return: v["fault_one_component_missing_at_column"].as_u64().map(|x| x as usize),
        }
    }

    fn describe(&self) -> Describe {
        Describe {
            rule: "one case = (real|complex, m, n, evaluation point, delta, scripted environment, fault list, optional callback panic). The simulator is the user function: it classifies every evaluation point against the forward stencil {x, x+delta e_j}, answers from an affine-dyadic map (J must equal M bit for bit), a smooth map with known derivative (O(delta) bound), or an arbitrary table on the stencil (undefined = NaN off the stencil), and injects NaN/Inf at chosen stencil points or a panic at a chosen evaluation. The first 288 runs enumerate all 36 shapes 1..6 x 1..6, real and complex, affine and table; the rest are drawn (dimensions to 6, to 12 in 3-10% of the runs, and one run in 2000 a shape up to 320 x 320 with exact kinds only; half of the scripted callback panics are followed by a retry of the same call, which is then judged). Distinct = hash of (shape, field, delta, point, environment); every case is non-trivial (m, n >= 1).".into(),
            assumptions: vec![
                "the forward stencil is x and x + delta*e_j (real part for complex variables); restored coordinates may differ from x_k by <= 2 ulp(max(|x_k|, delta)) on non-dyadic data, bitwise equal on dyadic data".into(),
                "on non-dyadic data entries are compared within a few ulp of the quotient plus 4u(|f_new|+|f|)/delta; on dyadic data with delta = 2^-k bit for bit".into(),
                "order and multiplicity of evaluations are not constrained (recorded only); C17 constrains the count".into(),
            ],
            real_components: vec!["ohsl::Mat64::jacobian".into(), "ohsl::Matrix::<Cmplx>::jacobian_cmplx".into(), "ohsl::Matrix::set_col / new / indexing, Vector arithmetic".into()],
            stub_components: vec!["the user map f: scripted, recording (this is the simulated peer, not a stub of ohsl code)".into()],
            fault_kinds: vec!["callback_nan_at_base", "callback_inf_at_base", "callback_nan_at_column", "callback_inf_at_column", "callback_panic", "callback_returns_too_few_components"],
            step_meaning: "ohsl has no clock; simulated_steps counts callback invocations (one protocol message each)".into(),
        }
    }

    fn required_probes(&self, _tier: Tier) -> Vec<&'static str> {
        vec!["m_lt_n", "m_gt_n", "m_eq_n", "complex", "real", "kind_affine", "kind_smooth", "kind_table", "exact_arithmetic", "rounded_arithmetic", "fault_reached_entry", "history_previous_jacobian_same_point", "history_newton_solve_onto_point", "history_same_closure_other_map", "reentrant_callback"]
    }
}

fn kind_name(k: &Kind) -> &'static str {
    match k {
        Kind::Affine { .. } => "affine",
        Kind::Smooth { .. } => "smooth",
        Kind::Table { .. } => "table",
    }
}

/// "jacobian:panic:<message without location>"
fn panic_key(fname: &str, msg: &str) -> String {
    // msg = "src/file.rs:LINE: text"
    let text = msg.splitn(3, ':').nth(2).unwrap_or(msg).trim();
    format!("{fname}:panic:{text}")
}

fn drop_row(case: &Case, i: usize, w: usize) -> Option<Case> {
    let (m, n) = (case.m, case.n);
    let mut c = case.clone();
    c.m = m - 1;
    let cut = |v: &Vec<f64>, per: usize| -> Vec<f64> {
        let mut o = v.clone();
        o.drain(i * per..(i + 1) * per);
        o
    };
    c.kind = match &case.kind {
        Kind::Affine { mat, c: cc } => Kind::Affine { mat: cut(mat, n * w), c: cut(cc, w) },
        Kind::Smooth { a, b, p, q } => Kind::Smooth { a: cut(a, 1), b: cut(b, n), p: cut(p, 1), q: cut(q, n) },
        Kind::Table { base, cols } => Kind::Table { base: cut(base, w), cols: cols.iter().map(|col| cut(col, w)).collect() },
    };
    c.faults = case.faults.iter().filter(|f| f.comp / w != i).map(|f| {
        let mut f = f.clone();
        if f.comp / w > i {
            f.comp -= w;
        }
        f
    }).collect();
    if c.faults.len() != case.faults.len() && !case.faults.is_empty() {
        // dropping the faulted row changes the scenario; still a valid candidate
    }
    Some(c)
}

fn drop_col(case: &Case, j: usize, w: usize) -> Option<Case> {
    let (m, n) = (case.m, case.n);
    let mut c = case.clone();
    c.n = n - 1;
    c.point.drain(j * w..(j + 1) * w);
    let cut_cols = |v: &Vec<f64>, per: usize| -> Vec<f64> {
        let mut o = Vec::with_capacity(v.len());
        for i in 0..m {
            for k in 0..n {
                if k != j {
                    o.extend_from_slice(&v[(i * n + k) * per..(i * n + k + 1) * per]);
                }
            }
        }
        o
    };
    c.kind = match &case.kind {
        Kind::Affine { mat, c: cc } => Kind::Affine { mat: cut_cols(mat, w), c: cc.clone() },
        Kind::Smooth { a, b, p, q } => Kind::Smooth { a: a.clone(), b: cut_cols(b, 1), p: p.clone(), q: cut_cols(q, 1) },
        Kind::Table { base, cols } => {
            let mut cols = cols.clone();
            cols.remove(j);
            Kind::Table { base: base.clone(), cols }
        }
    };
    c.faults = case.faults.iter().filter(|f| f.at != At::Col(j)).map(|f| {
        let mut f = f.clone();
        if let At::Col(k) = f.at {
            if k > j {
                f.at = At::Col(k - 1);
            }
        }
        f
    }).collect();
    if let Some(p) = c.panic_at {
        c.panic_at = Some(p.min(c.n));
    }
    if let Some(sj) = c.short_return {
        c.short_return = if sj == j { None } else if sj > j { Some(sj - 1) } else { Some(sj) };
    }
    Some(c)
}
