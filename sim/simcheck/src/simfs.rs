//! The file-system seam: an in-memory disk with a per-operation fault plan.
//! Implements the repository-side `verif_seam::fs::FsBackend`. Every call is counted;
//! every injected fault is recorded when it *fires*.

use crate::rng::Fnv;
use ohsl::verif_seam::fs::FsBackend;
use std::cell::RefCell;
use std::collections::BTreeMap;
use std::io;
use std::rc::Rc;

#[derive(Clone, Copy, Debug, PartialEq, Eq)]
pub enum FaultKind {
    // transient: legal behaviours of a successful OS call
    ShortWrite,
    EintrWrite,
    ShortRead,
    EintrRead,
    // hard
    CreateFail(u8), // 0 EACCES, 1 ENOSPC, 2 EMFILE
    WriteFail(u8),  // 0 ENOSPC, 1 EIO
    WriteZero,
    OpenFail(u8), // 0 EACCES, 1 EIO, 2 EMFILE
    ReadFail,
}

impl FaultKind {
    pub fn is_hard(self) -> bool {
        !matches!(self, FaultKind::ShortWrite | FaultKind::EintrWrite | FaultKind::ShortRead | FaultKind::EintrRead)
    }
    pub fn name(self) -> &'static str {
        match self {
            FaultKind::ShortWrite => "short_write",
            FaultKind::EintrWrite => "eintr_write",
            FaultKind::ShortRead => "short_read",
            FaultKind::EintrRead => "eintr_read",
            FaultKind::CreateFail(_) => "create_fail",
            FaultKind::WriteFail(_) => "write_fail",
            FaultKind::WriteZero => "write_zero",
            FaultKind::OpenFail(_) => "open_fail",
            FaultKind::ReadFail => "read_fail",
        }
    }
    pub const ALL_NAMES: [&'static str; 9] = ["short_write", "eintr_write", "short_read", "eintr_read", "create_fail", "write_fail", "write_zero", "open_fail", "read_fail"];
    pub fn code(self) -> String {
        match self {
            FaultKind::CreateFail(k) => format!("create_fail:{k}"),
            FaultKind::WriteFail(k) => format!("write_fail:{k}"),
            FaultKind::OpenFail(k) => format!("open_fail:{k}"),
            other => other.name().to_string(),
        }
    }
    pub fn parse(s: &str) -> FaultKind {
        let (head, arg) = match s.split_once(':') {
            Some((h, a)) => (h, a.parse::<u8>().unwrap_or(0)),
            None => (s, 0),
        };
        match head {
            "short_write" => FaultKind::ShortWrite,
            "eintr_write" => FaultKind::EintrWrite,
            "short_read" => FaultKind::ShortRead,
            "eintr_read" => FaultKind::EintrRead,
            "create_fail" => FaultKind::CreateFail(arg),
            "write_fail" => FaultKind::WriteFail(arg),
            "write_zero" => FaultKind::WriteZero,
            "open_fail" => FaultKind::OpenFail(arg),
            _ => FaultKind::ReadFail,
        }
    }
}

/// A fault armed for the current persistence operation: fires at the `at`-th
/// write (or read) call of that operation; create/open faults ignore `at`.
/// `amount` parametrises short transfers (bytes accepted = 1 + amount % (len-1)).
#[derive(Clone, Copy, Debug, PartialEq, Eq)]
pub struct Armed {
    pub at: usize,
    pub kind: FaultKind,
    pub amount: usize,
    /// when set, `at` is ignored for write faults: the fault fires on the first write call that
    /// reaches this byte offset of the operation's output (robust to buffering in the code under test)
    pub byte: Option<usize>,
}

struct Handle {
    path: String,
    pos: usize,
    writing: bool,
}

#[derive(Default)]
pub struct DiskState {
    pub files: BTreeMap<String, Vec<u8>>,
    handles: BTreeMap<u64, Handle>,
    next_handle: u64,
    armed: Vec<Armed>,
    // per-operation counters (reset by `begin_op`)
    pub op_writes: usize,
    pub op_reads: usize,
    pub op_creates: usize,
    pub op_opens: usize,
    pub op_fired: Vec<(usize, FaultKind)>,
    pub op_bytes_written: usize,
    // whole-run
    pub total_calls: u64,
    pub log: Fnv,
    pub open_handles_peak: usize,
    /// write-through to the real file system (the paths are real paths): switched on for a case once the
    /// code under test turned out to ask the real file system about a file it wrote through the seam
    /// (metadata, permissions, Path::exists, hard links ...). Content and faults stay simulated.
    pub mirror: bool,
}

impl DiskState {
    fn mirror_out(&self, path: &str) {
        if self.mirror {
            if let Some(bytes) = self.files.get(path) {
                let _ = std::fs::write(path, bytes);
            }
        }
    }
}

impl DiskState {
    pub fn begin_op(&mut self, faults: &[Armed]) {
        self.armed = faults.to_vec();
        self.op_writes = 0;
        self.op_reads = 0;
        self.op_creates = 0;
        self.op_opens = 0;
        self.op_fired.clear();
        self.op_bytes_written = 0;
    }
    pub fn end_op(&mut self) {
        self.armed.clear();
    }
    pub fn hard_fired(&self) -> bool {
        self.op_fired.iter().any(|(_, k)| k.is_hard())
    }
    pub fn open_handles(&self) -> usize {
        self.handles.len()
    }
    fn take(&mut self, pred: impl Fn(&Armed) -> bool) -> Option<Armed> {
        let i = self.armed.iter().position(pred)?;
        Some(self.armed.remove(i))
    }
}

fn os_err(kind: FaultKind) -> io::Error {
    let code = match kind {
        FaultKind::CreateFail(0) | FaultKind::OpenFail(0) => libc::EACCES,
        FaultKind::CreateFail(1) | FaultKind::WriteFail(0) => libc::ENOSPC,
        FaultKind::CreateFail(_) | FaultKind::OpenFail(2) => libc::EMFILE,
        FaultKind::WriteFail(_) | FaultKind::OpenFail(_) | FaultKind::ReadFail => libc::EIO,
        FaultKind::EintrWrite | FaultKind::EintrRead => libc::EINTR,
        _ => libc::EIO,
    };
    io::Error::from_raw_os_error(code)
}

/// The boxed object installed behind the seam; state is shared with the harness.
pub struct SimDisk {
    pub state: Rc<RefCell<DiskState>>,
}

impl FsBackend for SimDisk {
    fn create(&mut self, path: &str) -> io::Result<u64> {
        let mut s = self.state.borrow_mut();
        s.total_calls += 1;
        s.op_creates += 1;
        s.log.str("create");
        s.log.str(path.rsplit('/').next().unwrap_or(path)); // base name only: the directory embeds the pid
        if let Some(a) = s.take(|a| matches!(a.kind, FaultKind::CreateFail(_))) {
            let idx = s.op_creates - 1;
            s.op_fired.push((idx, a.kind));
            s.log.str("!");
            return Err(os_err(a.kind));
        }
        // create truncates
        s.files.insert(path.to_string(), Vec::new());
        s.mirror_out(path);
        let h = s.next_handle;
        s.next_handle += 1;
        s.handles.insert(h, Handle { path: path.to_string(), pos: 0, writing: true });
        let n = s.handles.len();
        s.open_handles_peak = s.open_handles_peak.max(n);
        Ok(h)
    }

    fn open(&mut self, path: &str) -> io::Result<u64> {
        let mut s = self.state.borrow_mut();
        s.total_calls += 1;
        s.op_opens += 1;
        s.log.str("open");
        s.log.str(path.rsplit('/').next().unwrap_or(path));
        if let Some(a) = s.take(|a| matches!(a.kind, FaultKind::OpenFail(_))) {
            let idx = s.op_opens - 1;
            s.op_fired.push((idx, a.kind));
            s.log.str("!");
            return Err(os_err(a.kind));
        }
        if !s.files.contains_key(path) {
            // unknown to the simulated disk: fall back to the real file system, so a
            // writer that bypassed the seam is still readable (never a false alarm)
            match std::fs::read(path) {
                Ok(bytes) => {
                    s.files.insert(path.to_string(), bytes);
                }
                Err(e) => return Err(e),
            }
        }
        let h = s.next_handle;
        s.next_handle += 1;
        s.handles.insert(h, Handle { path: path.to_string(), pos: 0, writing: false });
        let n = s.handles.len();
        s.open_handles_peak = s.open_handles_peak.max(n);
        Ok(h)
    }

    fn write(&mut self, handle: u64, buf: &[u8]) -> io::Result<usize> {
        let mut s = self.state.borrow_mut();
        s.total_calls += 1;
        let idx = s.op_writes;
        s.op_writes += 1;
        s.log.str("write");
        s.log.u64(buf.len() as u64);
        let (path, writing) = match s.handles.get(&handle) {
            Some(h) => (h.path.clone(), h.writing),
            None => return Err(io::Error::from_raw_os_error(libc::EBADF)),
        };
        if !writing {
            return Err(io::Error::from_raw_os_error(libc::EBADF));
        }
        if buf.is_empty() {
            return Ok(0);
        }
        let mut accept = buf.len();
        let lo = s.op_bytes_written;
        let hi = lo + buf.len();
        if let Some(a) = s.take(|a| {
            matches!(a.kind, FaultKind::ShortWrite | FaultKind::EintrWrite | FaultKind::WriteFail(_) | FaultKind::WriteZero)
                && match a.byte {
                    Some(b) => b < hi,
                    None => a.at == idx,
                }
        }) {
            match a.kind {
                FaultKind::ShortWrite => {
                    if buf.len() >= 2 {
                        accept = 1 + a.amount % (buf.len() - 1);
                        s.op_fired.push((idx, a.kind));
                        s.log.str("!short");
                    }
                }
                FaultKind::EintrWrite => {
                    s.op_fired.push((idx, a.kind));
                    s.log.str("!eintr");
                    return Err(os_err(a.kind));
                }
                FaultKind::WriteZero => {
                    s.op_fired.push((idx, a.kind));
                    s.log.str("!zero");
                    return Ok(0);
                }
                _ => {
                    s.op_fired.push((idx, a.kind));
                    s.log.str("!fail");
                    return Err(os_err(a.kind));
                }
            }
        }
        let pos = s.handles.get(&handle).unwrap().pos;
        let file = s.files.entry(path).or_default();
        if file.len() < pos {
            file.resize(pos, 0);
        }
        let end = pos + accept;
        if file.len() < end {
            file.resize(end, 0);
        }
        file[pos..end].copy_from_slice(&buf[..accept]);
        s.handles.get_mut(&handle).unwrap().pos = end;
        s.op_bytes_written += accept;
        Ok(accept)
    }

    fn read(&mut self, handle: u64, buf: &mut [u8]) -> io::Result<usize> {
        let mut s = self.state.borrow_mut();
        s.total_calls += 1;
        let idx = s.op_reads;
        s.op_reads += 1;
        s.log.str("read");
        let (path, pos) = match s.handles.get(&handle) {
            Some(h) => (h.path.clone(), h.pos),
            None => return Err(io::Error::from_raw_os_error(libc::EBADF)),
        };
        let len = s.files.get(&path).map(|f| f.len()).unwrap_or(0);
        let remaining = len.saturating_sub(pos);
        let mut n = remaining.min(buf.len());
        if let Some(a) = s.take(|a| a.at == idx && matches!(a.kind, FaultKind::ShortRead | FaultKind::EintrRead | FaultKind::ReadFail)) {
            match a.kind {
                FaultKind::ShortRead => {
                    if n >= 2 {
                        n = 1 + a.amount % (n - 1);
                        s.op_fired.push((idx, a.kind));
                        s.log.str("!short");
                    }
                }
                FaultKind::EintrRead => {
                    s.op_fired.push((idx, a.kind));
                    s.log.str("!eintr");
                    return Err(os_err(a.kind));
                }
                _ => {
                    s.op_fired.push((idx, a.kind));
                    s.log.str("!fail");
                    return Err(os_err(a.kind));
                }
            }
        }
        if n > 0 {
            let data = s.files.get(&path).unwrap();
            buf[..n].copy_from_slice(&data[pos..pos + n]);
            s.handles.get_mut(&handle).unwrap().pos = pos + n;
        }
        s.log.u64(n as u64);
        Ok(n)
    }

    fn flush(&mut self, _handle: u64) -> io::Result<()> {
        let mut s = self.state.borrow_mut();
        s.total_calls += 1;
        s.log.str("flush");
        if let Some(p) = s.handles.get(&_handle).filter(|h| h.writing).map(|h| h.path.clone()) {
            s.mirror_out(&p);
        }
        Ok(())
    }

    fn sync(&mut self, _handle: u64) -> io::Result<()> {
        let mut s = self.state.borrow_mut();
        s.total_calls += 1;
        s.log.str("sync");
        if let Some(p) = s.handles.get(&_handle).filter(|h| h.writing).map(|h| h.path.clone()) {
            s.mirror_out(&p);
        }
        Ok(())
    }

    fn close(&mut self, handle: u64) {
        let mut s = self.state.borrow_mut();
        s.total_calls += 1;
        s.log.str("close");
        if let Some(h) = s.handles.remove(&handle) {
            if h.writing {
                s.mirror_out(&h.path);
            }
        }
    }

    // ---- path operations (a writer that goes through a temporary file and renames it, removes the old
    // file first, or opens through OpenOptions is as legitimate as one that calls File::create)

    fn rename(&mut self, from: &str, to: &str) -> Option<io::Result<()>> {
        let mut s = self.state.borrow_mut();
        s.total_calls += 1;
        s.log.str("rename");
        match s.files.remove(from) {
            Some(bytes) => {
                s.files.insert(to.to_string(), bytes);
                for h in s.handles.values_mut() {
                    if h.path == from {
                        h.path = to.to_string();
                    }
                }
                let _ = std::fs::remove_file(to); // a stale real file of that name must not shine through later
                let _ = std::fs::remove_file(from);
                s.mirror_out(to);
                Some(Ok(()))
            }
            None => {
                // not on the simulated disk: the real file system decides; whatever the simulated disk
                // holds under the target name is stale from now on
                s.files.remove(to);
                None
            }
        }
    }

    fn remove_file(&mut self, path: &str) -> Option<io::Result<()>> {
        let mut s = self.state.borrow_mut();
        s.total_calls += 1;
        s.log.str("remove");
        if s.files.remove(path).is_some() {
            let _ = std::fs::remove_file(path);
            Some(Ok(()))
        } else {
            None
        }
    }

    fn exists(&mut self, path: &str) -> Option<bool> {
        let s = self.state.borrow();
        if s.files.contains_key(path) {
            Some(true)
        } else {
            None
        }
    }

    fn len_of_handle(&mut self, handle: u64) -> Option<u64> {
        let s = self.state.borrow();
        let h = s.handles.get(&handle)?;
        Some(s.files.get(&h.path).map(|f| f.len()).unwrap_or(0) as u64)
    }

    fn len_of_path(&mut self, path: &str) -> Option<u64> {
        let s = self.state.borrow();
        s.files.get(path).map(|f| f.len() as u64)
    }

    fn seek(&mut self, handle: u64, to: io::SeekFrom) -> Option<io::Result<u64>> {
        let mut s = self.state.borrow_mut();
        s.total_calls += 1;
        s.log.str("seek");
        let len = match s.handles.get(&handle) {
            Some(h) => s.files.get(&h.path).map(|f| f.len()).unwrap_or(0) as i128,
            None => return Some(Err(io::Error::from_raw_os_error(libc::EBADF))),
        };
        let cur = s.handles[&handle].pos as i128;
        let new = match to {
            io::SeekFrom::Start(p) => p as i128,
            io::SeekFrom::End(d) => len + d as i128,
            io::SeekFrom::Current(d) => cur + d as i128,
        };
        if new < 0 {
            return Some(Err(io::Error::from_raw_os_error(libc::EINVAL)));
        }
        s.handles.get_mut(&handle).unwrap().pos = new as usize;
        Some(Ok(new as u64))
    }

    fn set_len(&mut self, handle: u64, len: u64) -> Option<io::Result<()>> {
        let mut s = self.state.borrow_mut();
        s.total_calls += 1;
        s.log.str("set_len");
        let path = match s.handles.get(&handle) {
            Some(h) => h.path.clone(),
            None => return Some(Err(io::Error::from_raw_os_error(libc::EBADF))),
        };
        s.files.entry(path).or_default().resize(len as usize, 0);
        Some(Ok(()))
    }

    fn open_with(&mut self, path: &str, spec: &ohsl::verif_seam::fs::OpenSpec) -> Option<io::Result<u64>> {
        let writing = spec.write || spec.append;
        let mut s = self.state.borrow_mut();
        s.total_calls += 1;
        s.log.str(if writing { "create" } else { "open" });
        s.log.str(path.rsplit('/').next().unwrap_or(path));
        if writing {
            s.op_creates += 1;
            if let Some(a) = s.take(|a| matches!(a.kind, FaultKind::CreateFail(_))) {
                let idx = s.op_creates - 1;
                s.op_fired.push((idx, a.kind));
                s.log.str("!");
                return Some(Err(os_err(a.kind)));
            }
        } else {
            s.op_opens += 1;
            if let Some(a) = s.take(|a| matches!(a.kind, FaultKind::OpenFail(_))) {
                let idx = s.op_opens - 1;
                s.op_fired.push((idx, a.kind));
                s.log.str("!");
                return Some(Err(os_err(a.kind)));
            }
        }
        if !s.files.contains_key(path) {
            if let Ok(bytes) = std::fs::read(path) {
                s.files.insert(path.to_string(), bytes); // written earlier by something that bypassed the seam
            }
        }
        let exists = s.files.contains_key(path);
        if spec.create_new && exists {
            return Some(Err(io::Error::from_raw_os_error(libc::EEXIST)));
        }
        if !exists {
            if writing && (spec.create || spec.create_new) {
                s.files.insert(path.to_string(), Vec::new());
            } else {
                return Some(Err(io::Error::from_raw_os_error(libc::ENOENT)));
            }
        }
        if writing && spec.truncate {
            s.files.insert(path.to_string(), Vec::new());
        }
        if writing {
            s.mirror_out(path);
        }
        let pos = if spec.append { s.files[path].len() } else { 0 };
        let h = s.next_handle;
        s.next_handle += 1;
        s.handles.insert(h, Handle { path: path.to_string(), pos, writing });
        let n = s.handles.len();
        s.open_handles_peak = s.open_handles_peak.max(n);
        Some(Ok(h))
    }
}
