//! The thread-scheduler seam: our own seeded / scripted schedulers driving the
//! shuttle runtime. Every scheduling decision is drawn from the run's PRNG stream
//! (never from shuttle's RNG) and recorded as a list of task ids, so that a
//! schedule can be hashed, shrunk, stored in a replay file and re-executed exactly.

use crate::core::{catch, install_quiet_panic_hook};
use crate::rng::Rng;
use serde_json::{json, Value};
use shuttle::scheduler::{Schedule, Scheduler, Task, TaskId};
use shuttle::{Config, FailurePersistence, MaxSteps, Runner};
use std::sync::{mpsc, Arc, Mutex};

#[derive(Clone, Debug, PartialEq)]
pub enum SchedSpec {
    /// uniform choice among runnable tasks
    Random { seed: u64 },
    /// PCT-style: random task priorities, `depth` priority change points
    Pct { seed: u64, depth: u32 },
    /// always the newest runnable task (each worker runs the moment it is spawned;
    /// main runs only when nothing else can)
    MaxId,
    /// always the oldest runnable task (main until it blocks, then workers in spawn order)
    MinId,
    /// main until it blocks, then workers in reverse spawn order
    MainThenMaxId,
    /// `victim` is starved: it runs only when it is the only runnable task
    Stall { victim: u32, seed: u64 },
    /// replay: an explicit list of task ids (lowest runnable id if a step is not runnable)
    Script(Vec<u32>),
}

impl SchedSpec {
    pub fn draw(rng: &mut Rng, max_tasks: usize) -> SchedSpec {
        match rng.below(10) {
            0..=3 => SchedSpec::Random { seed: rng.next_u64() },
            4..=5 => SchedSpec::Pct { seed: rng.next_u64(), depth: rng.urange(1, 3) as u32 },
            6 => SchedSpec::MaxId,
            7 => SchedSpec::MinId,
            8 => SchedSpec::MainThenMaxId,
            _ => SchedSpec::Stall { victim: rng.usize_below(max_tasks.max(1) + 1) as u32, seed: rng.next_u64() },
        }
    }
    pub fn policy_name(&self) -> &'static str {
        match self {
            SchedSpec::Random { .. } => "random",
            SchedSpec::Pct { .. } => "pct",
            SchedSpec::MaxId => "max_id",
            SchedSpec::MinId => "min_id",
            SchedSpec::MainThenMaxId => "main_then_max_id",
            SchedSpec::Stall { .. } => "stall",
            SchedSpec::Script(_) => "script",
        }
    }
    pub fn to_json(&self) -> Value {
        match self {
            SchedSpec::Random { seed } => json!({"policy":"random","seed":seed.to_string()}),
            SchedSpec::Pct { seed, depth } => json!({"policy":"pct","seed":seed.to_string(),"depth":depth}),
            SchedSpec::MaxId => json!({"policy":"max_id"}),
            SchedSpec::MinId => json!({"policy":"min_id"}),
            SchedSpec::MainThenMaxId => json!({"policy":"main_then_max_id"}),
            SchedSpec::Stall { victim, seed } => json!({"policy":"stall","victim":victim,"seed":seed.to_string()}),
            SchedSpec::Script(s) => json!({"policy":"script","task_ids":s}),
        }
    }
    pub fn from_json(v: &Value) -> SchedSpec {
        let seed = || v["seed"].as_str().map(|s| s.parse::<u64>().unwrap()).unwrap_or(0);
        match v["policy"].as_str().unwrap_or("script") {
            "random" => SchedSpec::Random { seed: seed() },
            "pct" => SchedSpec::Pct { seed: seed(), depth: v["depth"].as_u64().unwrap_or(1) as u32 },
            "max_id" => SchedSpec::MaxId,
            "min_id" => SchedSpec::MinId,
            "main_then_max_id" => SchedSpec::MainThenMaxId,
            "stall" => SchedSpec::Stall { victim: v["victim"].as_u64().unwrap_or(0) as u32, seed: seed() },
            _ => SchedSpec::Script(
                v["task_ids"].as_array().map(|a| a.iter().map(|x| x.as_u64().unwrap() as u32).collect()).unwrap_or_default(),
            ),
        }
    }
}

/// What the scheduler observed during one execution.
#[derive(Clone, Debug, Default)]
pub struct ExecReport {
    pub trace: Vec<u32>,
    pub max_runnable: usize,
    pub max_task_id: u32,
    /// number of decisions at which more than one task was runnable
    pub real_choices: u32,
    /// some task other than main was chosen while a lower-id worker was runnable
    pub out_of_spawn_order: bool,
    /// main (task 0) was blocked at some decision (waiting in join / end of scope)
    pub main_blocked: bool,
    /// panic message if the execution died
    pub panic: Option<String>,
}

pub type Body = Arc<dyn Fn(usize) + Send + Sync + 'static>;

struct Job {
    specs: Vec<SchedSpec>,
    body: Body,
    /// called on the server thread after every execution, also one that died of a panic
    after: Option<Body>,
    reply: mpsc::Sender<Vec<ExecReport>>,
}

struct Active {
    job: Job,
    reports: Vec<ExecReport>,
    next_exec: usize,
    current: usize,
}

/// State shared between the server loop, the scheduler and the execution closure.
/// It outlives a Runner that dies of a panic, so a job continues in the next one.
struct Shared {
    rx: mpsc::Receiver<Job>,
    active: Option<Active>,
}

struct SimScheduler {
    shared: Arc<Mutex<Shared>>,
    // per-execution state
    spec: SchedSpec,
    rng: Rng,
    step: usize,
    prio: Vec<u64>,
    change_points: Vec<usize>,
    report: ExecReport,
    in_exec: bool,
}

impl SimScheduler {
    fn flush(&mut self) {
        if self.in_exec {
            let mut after: Option<(Body, usize)> = None;
            {
                let mut sh = self.shared.lock().unwrap();
                if let Some(a) = sh.active.as_mut() {
                    let idx = a.current;
                    a.reports[idx] = std::mem::take(&mut self.report);
                    if let Some(f) = &a.job.after {
                        after = Some((f.clone(), idx));
                    }
                }
            }
            self.in_exec = false;
            if !std::thread::panicking() {
                if let Some((f, idx)) = after {
                    f(idx);
                }
            }
        }
    }
}

impl Scheduler for SimScheduler {
    fn new_execution(&mut self) -> Option<Schedule> {
        self.flush();
        let mut sh = self.shared.lock().unwrap();
        loop {
            let finished = match sh.active.as_ref() {
                Some(a) => a.next_exec >= a.job.specs.len(),
                None => false,
            };
            if finished {
                let a = sh.active.take().unwrap();
                let _ = a.job.reply.send(a.reports);
            }
            if sh.active.is_none() {
                match sh.rx.recv() {
                    Ok(job) => {
                        let n = job.specs.len();
                        sh.active = Some(Active { job, reports: vec![ExecReport::default(); n], next_exec: 0, current: 0 });
                        continue;
                    }
                    Err(_) => return None, // client gone: end of this server
                }
            }
            let a = sh.active.as_mut().unwrap();
            let idx = a.next_exec;
            a.next_exec += 1;
            a.current = idx;
            self.spec = a.job.specs[idx].clone();
            break;
        }
        drop(sh);
        self.step = 0;
        self.prio.clear();
        self.change_points.clear();
        self.report = ExecReport::default();
        self.in_exec = true;
        match &self.spec {
            SchedSpec::Random { seed } | SchedSpec::Stall { seed, .. } => self.rng = Rng::new(*seed),
            SchedSpec::Pct { seed, depth } => {
                self.rng = Rng::new(*seed);
                for _ in 0..*depth {
                    let cp = self.rng.usize_below(64);
                    self.change_points.push(cp);
                }
            }
            _ => {}
        }
        Some(Schedule::new(0))
    }

    fn next_task(&mut self, runnable: &[&Task], current: Option<TaskId>, is_yielding: bool) -> Option<TaskId> {
        if runnable.is_empty() {
            return None;
        }
        let mut ids: Vec<u32> = runnable.iter().map(|t| usize::from(t.id()) as u32).collect();
        // A task that yields (yield_now, sleep, a park without token, a spin on an atomic) is asking for
        // somebody else to run: every policy, however unfair otherwise, grants that when anybody else can
        // run. Without it a wait loop around park() — legitimate, park may wake spuriously — never ends
        // under "always the lowest id". (The shipped dot_f64 never yields; recorded scripts are unaffected.)
        if is_yielding && ids.len() > 1 && !matches!(self.spec, SchedSpec::Script { .. }) {
            if let Some(c) = current {
                let c = usize::from(c) as u32;
                ids.retain(|i| *i != c);
            }
        }
        let yielded_to_others = is_yielding && current.is_some() && runnable.len() > 1 && !matches!(self.spec, SchedSpec::Script { .. });
        let min_id = *ids.iter().min().unwrap();
        let max_id = *ids.iter().max().unwrap();
        let choice: u32 = match &self.spec {
            // ... and who gets the turn is drawn uniformly from the others, whatever the policy: two tasks that
            // wait for a third by yielding to each other would otherwise starve it under "never the victim" or
            // "always the highest id" — which no real scheduler does for ever
            _ if yielded_to_others => ids[self.rng.usize_below(ids.len())],
            SchedSpec::Random { .. } => ids[self.rng.usize_below(ids.len())],
            SchedSpec::Pct { .. } => {
                for &id in &ids {
                    while self.prio.len() <= id as usize {
                        let p = self.rng.next_u64() | (1 << 63);
                        self.prio.push(p);
                    }
                }
                if self.change_points.contains(&self.step) {
                    if let Some(c) = current {
                        let c = usize::from(c);
                        if c < self.prio.len() {
                            // demote below every initial priority, later change points lower still
                            self.prio[c] = (self.change_points.len() as u64 + 64).saturating_sub(self.step as u64);
                        }
                    }
                }
                *ids.iter().max_by_key(|id| self.prio[**id as usize]).unwrap()
            }
            SchedSpec::MaxId => max_id,
            SchedSpec::MinId => min_id,
            SchedSpec::MainThenMaxId => {
                if ids.contains(&0) {
                    0
                } else {
                    max_id
                }
            }
            SchedSpec::Stall { victim, .. } => {
                let others: Vec<u32> = ids.iter().copied().filter(|i| i != victim).collect();
                if others.is_empty() {
                    *victim
                } else {
                    others[self.rng.usize_below(others.len())]
                }
            }
            SchedSpec::Script(s) => match s.get(self.step) {
                Some(id) if ids.contains(id) => *id,
                _ => min_id,
            },
        };
        if !ids.contains(&0) {
            self.report.main_blocked = true;
        }
        if ids.len() > 1 {
            self.report.real_choices += 1;
            if choice != 0 && ids.iter().any(|i| *i != 0 && *i < choice) {
                self.report.out_of_spawn_order = true;
            }
        }
        self.report.max_runnable = self.report.max_runnable.max(ids.len());
        self.report.max_task_id = self.report.max_task_id.max(max_id);
        // (an execution that goes on for tens of millions of decisions is on its way to the wall-clock
        // watchdog; stop growing the record so that it gets there without exhausting memory)
        if self.report.trace.len() < 20_000_000 {
            self.report.trace.push(choice);
        }
        self.step += 1;
        // An execution that has taken tens of millions of scheduling decisions is not going to finish (a
        // wait loop that never gets what it waits for); shuttle records every decision, so it would also
        // eat the machine's memory before the wall-clock watchdog gets to it. Slow it to a crawl instead:
        // the watchdog then classifies it like any other hang.
        if self.step > 30_000_000 {
            std::thread::sleep(std::time::Duration::from_millis(2));
        }
        Some(TaskId::from(choice as usize))
    }

    fn next_u64(&mut self) -> u64 {
        // shuttle::rand is not used by the system under test; keep it deterministic anyway
        self.rng.next_u64()
    }
}

impl Drop for SimScheduler {
    fn drop(&mut self) {
        self.flush();
    }
}

fn config() -> Config {
    let mut c = Config::new();
    c.failure_persistence = FailurePersistence::None;
    // no step bound: a scheme with tens of thousands of blocks on a million-element vector legitimately takes
    // millions of scheduling steps; a genuine livelock is the business of the wall-clock watchdog
    c.max_steps = MaxSteps::None;
    c.stack_size = 0x10000;
    c.silence_warnings = true;
    c
}

/// One long-lived shuttle server per client OS thread. A single `Runner::run` serves
/// many jobs (so coroutine stacks are pooled instead of mmap'ed per case); a panic
/// inside an execution kills that Runner only — the server records the message in the
/// execution's report and carries on with the same job in a fresh Runner.
fn server(rx: mpsc::Receiver<Job>) {
    let shared = Arc::new(Mutex::new(Shared { rx, active: None }));
    loop {
        let sched = SimScheduler {
            shared: shared.clone(),
            spec: SchedSpec::MinId,
            rng: Rng::new(0),
            step: 0,
            prio: vec![],
            change_points: vec![],
            report: ExecReport::default(),
            in_exec: false,
        };
        let runner = Runner::new(sched, config());
        let sh2 = shared.clone();
        let r = catch(move || {
            runner.run(move || {
                let (body, idx) = {
                    let sh = sh2.lock().unwrap();
                    let a = sh.active.as_ref().expect("execution without a job");
                    (a.job.body.clone(), a.current)
                };
                body(idx);
            })
        });
        match r {
            Ok(_) => return, // new_execution returned None: client gone
            Err(msg) => {
                let mut after: Option<(Body, usize)> = None;
                {
                    let mut sh = shared.lock().unwrap();
                    if let Some(a) = sh.active.as_mut() {
                        let idx = a.current;
                        a.reports[idx].panic = Some(msg);
                        if let Some(f) = &a.job.after {
                            after = Some((f.clone(), idx));
                        }
                    }
                }
                if let Some((f, idx)) = after {
                    f(idx);
                }
            }
        }
    }
}

thread_local! {
    static SERVER: std::cell::RefCell<Option<mpsc::Sender<Job>>> = const { std::cell::RefCell::new(None) };
}

/// Run `body(exec_index)` once per spec, each inside its own shuttle execution under
/// the given schedule. A panic inside an execution (including a deadlock reported by
/// shuttle) is caught and recorded in that execution's report; the others still run.
pub fn run_under<F>(specs: &[SchedSpec], body: F) -> Vec<ExecReport>
where
    F: Fn(usize) + Send + Sync + 'static,
{
    run_under_with(specs, body, None)
}

/// `after(exec_index)` runs on the server thread once each execution is over — normally or by a panic.
pub fn run_under_with<F>(specs: &[SchedSpec], body: F, after: Option<Body>) -> Vec<ExecReport>
where
    F: Fn(usize) + Send + Sync + 'static,
{
    if specs.is_empty() {
        return vec![];
    }
    let (reply_tx, reply_rx) = mpsc::channel();
    let mut job = Some(Job { specs: specs.to_vec(), body: Arc::new(body), after, reply: reply_tx });
    for _attempt in 0..2 {
        let tx = SERVER.with(|s| {
            let mut s = s.borrow_mut();
            if s.is_none() {
                let (tx, rx) = mpsc::channel::<Job>();
                std::thread::Builder::new()
                    .name("shuttle-server".into())
                    .stack_size(16 << 20)
                    .spawn(move || server(rx))
                    .expect("spawn shuttle server");
                *s = Some(tx);
            }
            s.as_ref().unwrap().clone()
        });
        match tx.send(job.take().unwrap()) {
            Ok(()) => break,
            Err(e) => {
                // server died (should not happen): start a new one
                job = Some(e.0);
                SERVER.with(|s| *s.borrow_mut() = None);
            }
        }
    }
    reply_rx.recv().expect("shuttle server vanished")
}

/// shuttle installs a (noisy) panic hook exactly once, on its first execution. Run a
/// trivial execution so that has happened, then install our quiet hook over it.
pub fn prime_shuttle() {
    let _ = run_under(&[SchedSpec::MinId], |_| {});
    install_quiet_panic_hook();
}

pub fn trace_hash(trace: &[u32]) -> u64 {
    let mut h = crate::rng::Fnv::new();
    for t in trace {
        h.bytes(&t.to_le_bytes());
    }
    h.finish()
}
