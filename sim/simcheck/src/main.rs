//! simcheck — deterministic simulation with fault injection for ohsl.
//!
//!   simcheck run <ID> [--tier quick|thorough] [--seed N] [--threads N] [--runs N]
//!                     [--verif-dir DIR] [--dump-hashes FILE] [--no-evidence] [--max-seconds S]
//!   simcheck replay <file.json>
//!
//! Exit codes: 0 property held on everything explored; 1 violation (a line
//! "VIOLATION property=<id> replay=<path>" is printed); 2 harness error.

#[macro_use]
mod core;
mod c16;
mod c17;
mod c18;
mod c19;
mod simfs;
mod rng;
mod sched;

use crate::core::*;

const DEFAULT_SEED: u64 = 20260926;

fn usage() -> ! {
    eprintln!("usage: simcheck run <C16|C17|C18|C19> [--tier quick|thorough] [--seed N] [--threads N] [--runs N] [--verif-dir DIR] [--dump-hashes FILE] [--no-evidence] | simcheck replay <file>");
    std::process::exit(2);
}

fn run_one<P: Prop>(p: &P, opt: &Options) -> i32 {
    let r = run_batch(p, opt);
    say!(
        "property={} tier={} seed={} runs={} steps={} wall_s={:.2} runs_per_hour={} digest={:016x} violations={} known_findings={}",
        p.id(),
        opt.tier.name(),
        opt.seed,
        r.runs,
        r.stats.steps,
        r.wall_s,
        if r.wall_s > 0.0 { (r.runs as f64 / r.wall_s * 3600.0) as u64 } else { 0 },
        r.digest,
        r.violations,
        r.known
    );
    let planned = opt.runs_override.unwrap_or_else(|| p.runs(opt.tier));
    if r.runs < planned && r.exit_code == 0 {
        say!("NOTE property={} pass truncated by its wall-clock budget after {} of {} runs ({}s)", p.id(), r.runs, planned, opt.max_seconds.unwrap_or(0.0));
    }
    let missing: Vec<&str> = p.required_probes(opt.tier).into_iter().filter(|n| r.stats.get(&format!("probe.{n}")) == 0).collect();
    if !missing.is_empty() && opt.runs_override.is_none() && opt.max_seconds.is_none() {
        say!("NOTE property={} probes never hit in this batch: {:?}", p.id(), missing);
    }
    if std::env::var("SIMCHECK_VERBOSE").is_ok() {
        for (k, v) in &r.stats.counters {
            say!("  {k} = {v}");
        }
        for (k, v) in &r.stats.distinct {
            say!("  distinct {k} = {}", v.len());
        }
    }
    r.exit_code
}

fn main() {
    let args: Vec<String> = std::env::args().collect();
    if args.len() < 3 {
        usage();
    }
    sched::prime_shuttle();
    match args[1].as_str() {
        "run" => {
            let id = args[2].clone();
            let mut opt = Options {
                seed: std::env::var("VERIF_SEED").ok().and_then(|s| s.trim().parse::<u64>().ok()).unwrap_or(DEFAULT_SEED),
                tier: match std::env::var("VERIF_TIER").ok().as_deref() {
                    Some("thorough") => Tier::Thorough,
                    _ => Tier::Quick,
                },
                threads: std::thread::available_parallelism().map(|n| n.get()).unwrap_or(4).min(16),
                verif_dir: std::env::var("VERIF_DIR").unwrap_or_else(|_| "/verif".into()),
                runs_override: None,
                dump_hashes: None,
                write_evidence: true,
                max_seconds: None,
            };
            let mut i = 3;
            while i < args.len() {
                let need = |i: usize| -> &String { args.get(i + 1).unwrap_or_else(|| usage()) };
                match args[i].as_str() {
                    "--tier" => {
                        opt.tier = match need(i).as_str() {
                            "quick" => Tier::Quick,
                            "thorough" => Tier::Thorough,
                            _ => usage(),
                        };
                        i += 1;
                    }
                    "--seed" => {
                        opt.seed = need(i).parse().unwrap_or_else(|_| usage());
                        i += 1;
                    }
                    "--threads" => {
                        opt.threads = need(i).parse().unwrap_or_else(|_| usage());
                        i += 1;
                    }
                    "--runs" => {
                        opt.runs_override = Some(need(i).parse().unwrap_or_else(|_| usage()));
                        i += 1;
                    }
                    "--verif-dir" => {
                        opt.verif_dir = need(i).clone();
                        i += 1;
                    }
                    "--dump-hashes" => {
                        opt.dump_hashes = Some(need(i).clone());
                        i += 1;
                    }
                    "--max-seconds" => {
                        opt.max_seconds = Some(need(i).parse().unwrap_or_else(|_| usage()));
                        i += 1;
                    }
                    "--no-evidence" => opt.write_evidence = false,
                    _ => usage(),
                }
                i += 1;
            }
            // wall-clock budget per pass (never reached on the shipped tree: quick passes take seconds). It only
            // bounds how long a check can be made to run by a change that slows the code under test down
            // enormously; a truncated pass says so in its summary line and evidence.
            if opt.max_seconds.is_none() {
                opt.max_seconds = Some(match opt.tier {
                    Tier::Quick => 240.0,
                    Tier::Thorough => 2400.0,
                });
            }
            let code = match id.as_str() {
                "C16" => run_one(&c16::C16, &opt),
                "C17" => {
                    silence_library_stdout();
                    run_one(&c17::C17, &opt)
                }
                "C18" => run_one(&c18::C18, &opt),
                "C19" => run_one(&c19::C19, &opt),
                _ => {
                    eprintln!("HARNESS-ERROR unknown or unclaimed property {id}");
                    2
                }
            };
            std::process::exit(code);
        }
        "replay" => {
            let text = std::fs::read_to_string(&args[2]).unwrap_or_else(|e| {
                eprintln!("HARNESS-ERROR cannot read {}: {e}", args[2]);
                std::process::exit(2)
            });
            let doc: serde_json::Value = serde_json::from_str(&text).unwrap_or_else(|e| {
                eprintln!("HARNESS-ERROR bad replay file: {e}");
                std::process::exit(2)
            });
            if std::env::var("SIMCHECK_LOUD").is_ok() {
                set_loud(true);
            }
            let code = match doc["property"].as_str().unwrap_or("") {
                "C16" => replay_file(&c16::C16, &doc),
                "C17" => {
                    silence_library_stdout();
                    replay_file(&c17::C17, &doc)
                }
                "C18" => replay_file(&c18::C18, &doc),
                "C19" => replay_file(&c19::C19, &doc),
                other => {
                    eprintln!("HARNESS-ERROR unknown property in replay file: {other}");
                    2
                }
            };
            std::process::exit(code);
        }
        _ => usage(),
    }
}
